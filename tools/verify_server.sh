#!/bin/bash
# verify_server.sh <patch.diff> <out.json> : apply the patch in a scratch worktree and run the server package
# (TestServers, the only tests with fixed ports) in a private network namespace; record the stable subtests.
export GOFLAGS=-mod=mod GOPROXY=off GOSUMDB=off GOTOOLCHAIN=local; unset GOWORK
D=$1; OUT=$2
WT=/tmp/vs/$$; mkdir -p /tmp/vs
git -C /repo worktree add -q --detach $WT HEAD || exit 2
cd $WT
if ! git apply $D 2>/dev/null && ! git apply --3way $D 2>/dev/null; then echo '{"apply": false}' > $OUT; cd /; git -C /repo worktree remove --force $WT; exit 1; fi
LOG=$OUT.log
unshare -rn /verif/tools/netns_run.sh go test -vet=off -count=1 -timeout 20m ./server/ > $LOG 2>&1
ST=""
for t in ClusterComplex.2 ClusterMultiLeader.1; do
  if grep -aqE "^\s+--- FAIL: TestServers/$t " $LOG; then ST="$ST$t=FAIL,"; elif grep -aqE "^\s+--- PASS: TestServers/$t |^ok " $LOG; then ST="$ST$t=pass,"; else ST="$ST$t=unknown,"; fi
done
PKG=$(grep -aE "^(ok|FAIL)\s" $LOG | tail -1 | awk '{print $1}')
echo "{\"apply\": true, \"server_pkg\": \"$PKG\", \"stable_subtests\": \"$ST\"}" > $OUT
grep -a "^--- FAIL\|^\s*--- FAIL" $LOG | head -12 > $OUT.fails
rm -f $LOG
cd /; git -C /repo worktree remove --force $WT
cat $OUT
