#!/bin/bash
# confirm_seed.sh <prop> <k> <demo-file> <demo-dir-in-repo> <go test -run pattern> [suite|nosuite]
# Confirms a seeded change in a scratch worktree: applies, builds, runs demo (must fail),
# optionally the full suite, reverts, runs demo (must pass); then runs zcheck for <prop>
# on the changed tree. Writes /tmp/seedout/<prop>/confirm<k>.json. Removes the worktree.
set -u
export GOFLAGS=-mod=mod GOPROXY=off GOSUMDB=off GOTOOLCHAIN=local; unset GOWORK
# tests run in a private network namespace (loopback only): the server tests use fixed ports
NS="unshare -rn /verif/tools/netns_run.sh"
P=$1; K=$2; DEMO=$3; DDIR=$4; PAT=$5; SUITE=${6:-suite}
OUT=${SEEDOUT:-/tmp/seedout}/$P
WT=/tmp/cs/$P-$K-$$
rm -rf $WT; mkdir -p /tmp/cs
git -C /repo worktree add -q --detach $WT HEAD || exit 2
cd $WT
res() { echo "$1"; }
if ! git apply $OUT/change$K.diff 2>$OUT/confirm$K.apply.log && ! git apply --3way $OUT/change$K.diff 2>>$OUT/confirm$K.apply.log; then
  echo "{\"apply\": false}" > $OUT/confirm$K.json; git -C /repo worktree remove --force $WT; exit 1
fi
git diff > $OUT/confirm$K.applied.diff
BUILD=ok; go build ./... > $OUT/confirm$K.build.log 2>&1 || BUILD=fail
cp $OUT/$DEMO $WT/$DDIR/zz_demo_test.go
DEMO_WITH=pass; $NS go test -vet=off -count=1 -run "$PAT" ./$DDIR/ > $OUT/confirm$K.demo_with.log 2>&1 || DEMO_WITH=fail
rm -f $WT/$DDIR/zz_demo_test.go
SUITE_RES=skipped
if [ "$SUITE" = suite ]; then
  $NS go test -vet=off -count=1 -timeout 25m ./... > $OUT/confirm$K.suite.log 2>&1
  SUITE_RES=$(grep -E "^(FAIL|---)" $OUT/confirm$K.suite.log | grep -E "^--- FAIL" | sed 's/--- FAIL: //;s/ (.*//' | sort -u | tr '\n' ',' )
  SUB=$(grep -aE "^\s+--- FAIL: TestServers/(ClusterComplex.2|ClusterMultiLeader.1) " $OUT/confirm$K.suite.log | sed 's/ *--- FAIL: //;s/ (.*//' | sort -u | tr '\n' ',')
  SUITE_RES="$SUITE_RES$SUB"
  [ -z "$SUITE_RES" ] && SUITE_RES=allpass
fi
# zcheck on the changed tree
mkdir -p /tmp/zout/$P-$K; cp /verif/known_findings.json /tmp/zout/$P-$K/
/verif/bin/zcheck -p $P -repo $WT -verif /tmp/zout/$P-$K > $OUT/confirm$K.zcheck.log 2>&1; ZC=$?
git reset -q --hard HEAD
cp $OUT/$DEMO $WT/$DDIR/zz_demo_test.go
DEMO_WITHOUT=pass; $NS go test -vet=off -count=1 -run "$PAT" ./$DDIR/ > $OUT/confirm$K.demo_without.log 2>&1 || DEMO_WITHOUT=fail
cd /; git -C /repo worktree remove --force $WT
cat > $OUT/confirm$K.json <<EOJ
{"apply": true, "build": "$BUILD", "demo_with_change": "$DEMO_WITH", "demo_without_change": "$DEMO_WITHOUT", "suite_failures": "$SUITE_RES", "zcheck_exit": $ZC}
EOJ
cat $OUT/confirm$K.json
