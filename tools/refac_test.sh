#!/bin/bash
# refac_test.sh <dir-with-refactorN.diff> <out-log> : every check must stay silent on behaviour-preserving changes
D=$1; LOG=$2; : > $LOG
for f in $D/*.diff; do
  WT=/tmp/rt/$(basename $f .diff)-$$; mkdir -p /tmp/rt
  git -C /repo worktree add -q --detach $WT HEAD || continue
  if ! (cd $WT && (git apply $f 2>/dev/null || git apply --3way $f 2>/dev/null)); then echo "$(basename $f): APPLY FAILED" >> $LOG; git -C /repo worktree remove --force $WT; continue; fi
  mkdir -p /tmp/zout/rt$$; cp /verif/known_findings.json /tmp/zout/rt$$/
  OUT=$(/verif/bin/zcheck -p all -repo $WT -verif /tmp/zout/rt$$ 2>&1); RC=$?
  echo "$(basename $f) exit=$RC" >> $LOG
  echo "$OUT" | grep "^VIOLATION \|^UNDECIDED\|^ERROR" | grep -v "^VIOLATION property" | cut -c1-400 >> $LOG
  git -C /repo worktree remove --force $WT
done
rm -rf /tmp/zout/rt$$
echo ALLDONE >> $LOG
