#!/bin/bash
# refac_test.sh <dir-with-refactorN.diff> <out-log> : every check must stay silent on behaviour-preserving changes
D=$1; LOG=$2; : > $LOG
for f in $D/refactor*.diff; do
  WT=/tmp/rt/$(basename $f .diff)-$$; mkdir -p /tmp/rt
  git -C /repo worktree add -q --detach $WT HEAD || continue
  if ! (cd $WT && (git apply $f 2>/dev/null || git apply --3way $f 2>/dev/null)); then echo "$(basename $f): APPLY FAILED" >> $LOG; git -C /repo worktree remove --force $WT; continue; fi
  mkdir -p /tmp/zout/rt; cp /verif/known_findings.json /tmp/zout/rt/
  for P in C01 C02 C03 C04 C05 C06 C07 C08 C09 C10 C11 C12 C13 C14 C15 C16 C17 C18 C19 C20; do
    OUT=$(/verif/bin/zcheck -p $P -repo $WT -verif /tmp/zout/rt 2>&1); RC=$?
    if [ $RC -ne 0 ]; then echo "$(basename $f) $P exit=$RC" >> $LOG; echo "$OUT" | grep -v "^OK\|^KNOWN\|^ *|" | grep "^VIOLATION \|^UNDECIDED\|^ERROR" | grep -v "^VIOLATION property" | cut -c1-400 >> $LOG; fi
  done
  echo "$(basename $f): done" >> $LOG
  git -C /repo worktree remove --force $WT
done
echo ALLDONE >> $LOG
