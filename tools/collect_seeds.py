#!/usr/bin/env python3
"""Collects confirmed seeded changes from /tmp/seedout into /verif/seeded/<prop>-<k>/.
Run after tools/confirm_seed.sh has written confirm<k>.json for the seed."""
import json, os, shutil, sys, re

SRC = '/tmp/seedout'
DST = '/verif/seeded'

# prop-k: (demo dir, run pattern, what it changes, what it needs to manifest, detection status, rule)
T = {
 'C01-1': ('.', 'TestDemo1', 'Sequence.Merge: overlapPeriods = bPeriods in the "B ends later" branch; B\'s oldest periods are dropped', 'a key with a multi-period sequence on disk, a flush, then a late point for an interior period', 'missed', 'value arithmetic inside Sequence.Merge: no rule can decide it statically'),
 'C01-2': ('.', 'TestDemo2', 'rowStore.processInserts: guard insert.key != nil became len(insert.key) > 0', 'a point carrying none of the table\'s GROUP BY dimensions (empty, non-nil key)', 'initial', 'C01.a'),
 'C01-3': ('.', 'TestDemo3', 'table.insert no longer copies dims/vals out of the WAL read buffer', 'a GROUP BY * table and >= 3 points with distinct dims (buffer reuse)', 'initial', 'C01.d'),
 'C02-1': ('.', 'TestDemo1', 'flush closure writes the offset file at the start of every flush', 'a kill inside a flush after the offset file rename and before the filestore rename', 'initial', 'C02.e'),
 'C02-2': ('.', 'TestDemo2', 'openRowStore: a present offset file overrides the filestore header instead of Advance()', 'filtered points + flush, stored points + flush, restart', 'initial', 'C02.f'),
 'C02-3': ('.', 'TestDemo3', 'table.processInserts batches skip offsets on a 1s ticker', 'filtered point then stored points within a second, tick, flush, restart', 'initial', 'C02.h'),
 'C03-1': ('.', 'TestDemo1', 'Sequence.Merge lead-window copy no longer advances sa', 'newer sequence leads the older one and overlaps it (late point after flush)', 'missed', 'value arithmetic inside Sequence.Merge'),
 'C03-3': ('.', 'TestDemo3', 'openRowStore: offset file overrides the filestore header', 'WHERE-rejected point while memstore empty, flush, accepted points, flush, clean restart', 'strengthened', 'C03.f (C02.f also registered under C03)'),
 'C04-1': ('.', 'TestDemo1', 'rowStore.iterate keeps the memstore snapshot between queries', 'memstore query, flush, memstore query with no insert in between', 'strengthened', 'C04.i standalone clause (initially only C18.a)'),
 'C04-2': ('.', 'TestDemo2', 'copy-on-write Tree.Copy sharing node data + in-place Truncate', 'UNTIL before the newest memstore period, then a flush', 'initial', 'C04.a + C04.i'),
 'C04-3': ('.', 'TestDemo3', 'memstore.copy copies the struct (live tree) + Merge reuses the covering operand', 'key in both stores with the memstore sequence covering the file periods (late point)', 'initial', 'C04.a + C04.i'),
 'C05-1': ('expr', 'TestDemo1', 'aggregate.Merge collapses the set/unset branching into one merge call', 'MIN/MAX leaf where only the first operand has data for the period', 'strengthened', 'C05.d'),
 'C05-2': ('encoding', 'TestDemo2', 'Sequence.Merge: overlapPeriods = bPeriods', 'a short series lying strictly inside a longer one', 'missed', 'value arithmetic inside Sequence.Merge'),
 'C05-3': ('encoding', 'TestDemo3', 'Sequence.SubMerge skips a fine period whose first 8 bytes are zero', 'roll-up of a composite (binary) expression with partial points', 'strengthened', 'C05.d'),
 'C06-1': ('.', 'TestC06Demo1', 'Sequence.Truncate reslices and writes the header in place', 'two coalesced queries, one with UNTIL before the newest data', 'strengthened', 'C06.d (purity, initially only under C05/C17)'),
 'C06-2': ('.', 'TestC06Demo2', 'planLocal needsGroupBy: resolutionChanged became resolutionTruncated', 'SELECT * … GROUP BY *, period(P) with P inside the window', 'strengthened', 'C06.e'),
 'C06-3': ('.', 'TestC06Demo3', 'group.GetAsOf rounds asOf up to a bucket boundary', 'a period that does not evenly divide the window', 'missed', 'value arithmetic on time bounds'),
 'C07-1': ('.', 'TestC07Demo1', 'asOfUntilFor rounds the clock before adding relative offsets', 'unaligned clock and an offset that is not a multiple of the resolution', 'strengthened', 'C07.c'),
 'C07-2': ('.', 'TestC07Demo2', 'group.GetAsOf snaps asOf upward to the period grid', 'ASOF over a sub-query with a coarser period', 'missed', 'value arithmetic on time bounds'),
 'C07-3': ('.', 'TestC07Demo3', 'node.doUpdate trims input columns to (asOf, until] before SubMerge', 'SHIFT/CROSSHIFT columns plus ASOF', 'strengthened', 'C07.c / C06.e'),
 'C08-1': ('.', 'TestC08Demo1', 'pointsAndHavingFieldSource emits [_having, _points]', 'IN-subquery with HAVING', 'strengthened', 'C08.d'),
 'C08-2': ('.', 'TestC08Demo2', 'selectClause.addField registers an alias only if the name is unknown', 'alias shadowing a table column + HAVING on it', 'strengthened', 'C08.d'),
 'C08-3': ('.', 'TestC08Demo3', 'rowFilter: key != nil became len(key) > 0', 'rows with an empty, non-nil key and a predicate true for them', 'strengthened', 'C08.d'),
 'C09-1': ('planner', 'TestC09Demo1', 'compare collapses numeric cases into a float64 comparison', 'integer dimensions above 2^53 as ORDER BY key', 'initial', 'C09.b (floor: the type-switch arms are gone; diagnostic is "shape changed", not the precision loss)'),
 'C09-2': ('planner', 'TestC09Demo2', 'offset counter hoisted into the struct', 'the same plan iterated twice', 'initial', 'C09.d'),
 'C09-3': ('planner', 'TestC09Demo3', 'SortTopN truncation given LIMIT but not OFFSET', 'ORDER BY with LIMIT n OFFSET > 0 and >= 2n rows', 'initial', 'C09.c (anchor: core.Sort call replaced; diagnostic is "shape changed")'),
 'C10-1': ('.', 'TestC10Demo1', 'sortedPartitionKeys sorts a copy', 'partitionby with >= 2 keys in non-alphabetical order, > 1 partition', 'initial', 'C10.c'),
 'C10-2': ('.', 'TestC10Demo2', 'pushdownAllowed uses WalkParams at the table level', 'GROUP BY a non-injective function of the partition key', 'initial', 'C10.d (= C11.b)'),
 'C10-3': ('.', 'TestC10Demo3', 'onFollowerJoined reuses an existing followSpec, offset only moves forward', 'follower crash/re-join to the same running leader', 'strengthened', 'C10.f (= C12.c, initially only under C12)'),
 'C11-1': ('planner', 'TestC11Demo1', 'pushdownAllowed drops the enclosing-level filter at intermediate levels', 'FROM-subqueries >= 3 deep, outer GROUP BY omitting a partition key', 'strengthened', 'C11.b'),
 'C11-2': ('planner', 'TestC11Demo2', 'HAVING injection slices lowerSQL instead of sqlString', 'non-pushdown query with HAVING and an upper-case literal in the SELECT list', 'strengthened', 'C11.a (key names the string that is cut)'),
 'C11-3': ('planner', 'TestC11Demo3', 'Plan pushes every IN-subquery down whole', 'IN-subquery with HAVING whose GROUP BY omits a partition key', 'strengthened', 'C11.b'),
 'C12-1': ('.', 'TestC12Demo1', 'openRowStore resumes from the offset file whenever it exists', 'skip-only flush, data flush, clean follower restart', 'initial', 'C12.f (= C02.f)'),
 'C12-2': ('.', 'TestC12Demo2', 'leader keeps an existing followSpec offset if later than requested', 'link cut with points in the gap, reconnect', 'initial', 'C12.c'),
 'C12-3': ('.', 'TestC12Demo3', 'follower dedup loop returns instead of continuing', 'tables resuming at different offsets after a restart from a snapshot', 'strengthened', 'C12.a'),
 'C13-1': ('rpc/server', 'TestDemo1', 'HandleRemoteQueries checks EndOfResults before Error', 'a follower failing after it started answering', 'strengthened', 'C13.d'),
 'C13-2': ('web', 'TestDemo2', 'doQuery row callback stops at the size cap without an error', 'result larger than MaxResponseBytes whose prefix compresses below it', 'strengthened', 'C13.f'),
 'C13-3': ('core', 'TestDemo3', 'sorter.Iterate folds the deadline check into the break condition', 'deadline between end of scan and last emitted row', 'strengthened', 'C13.e'),
 'C14-1': ('.', 'TestC14Demo1', 'ingest retention filter compares the rounded-up period', 'a late point older than retention by less than one resolution', 'strengthened', 'C14.b'),
 'C14-2': ('.', 'TestC14Demo2', 'disallowRaw := !shouldSort && flushCount%10 == 9', 'MaxMemoryRatio > 0, forced flush on the tenth slot, idle key', 'strengthened', 'C14.c'),
 'C14-3': ('.', 'TestC14Demo3', 'planLocal range guard checks the range length instead of asOf', 'ASOF and UNTIL both before the retention boundary', 'initial', 'C14.d (= C07.b)'),
 'C15-1': ('.', 'TestDemo1', 'raw pass-through gate compares fs.fields instead of the file header', 'restart with a reordered schema, untouched row, non-10th flush', 'strengthened', 'C15.c'),
 'C15-2': ('.', 'TestDemo2', 'outIdxsFor keyed by field name', 'field redefined under the same name while old data exists', 'initial', 'C15.a'),
 'C15-3': ('.', 'TestDemo3', 'info drops the placeholder + rowMapper gains a bounds guard', 'restart with a schema that dropped a non-last field', 'initial', 'C15.b'),
 'C16-1': ('sql', 'TestDemo1', 'applyFrom asserts the sub-select instead of re-parsing', 'UNION inside a FROM subquery', 'initial', 'C16.a'),
 'C16-2': ('planner', 'TestDemo2', 'regexp.Compile became regexp.MustCompile on client text', 'cluster leader, non-pushdown HAVING query with a regex-invalid FROM text', 'strengthened', 'C16.c'),
 'C16-3': ('.', 'TestDemo3', 'recover() moved into a helper called by the deferred function', 'payload that panics during per-entry processing', 'initial', 'C16.b'),
 'C17-1': ('.', 'TestDemo1', 'remaining iterations kept in a slice shrunk in place while indexing', 'one coalesced query stops early and arrived before another', 'initial', 'C17.e (shape: map+delete gone)'),
 'C17-2': ('.', 'TestDemo2', 'shared scan context derived from iterations[0].ctx (ported to HEAD after F15)', 'first arrival has a shorter deadline than another query', 'strengthened', 'C17.g'),
 'C18-1': ('.', 'TestDemo1', 'copyData: append(seq[:0], seq...)', 'a point landing mid-scan on an existing key and period', 'initial', 'C18.a'),
 'C18-2': ('.', 'TestDemo2', 'memstore copied after the read lock is released', 'inserts racing with the copy', 'initial', 'C18.b'),
 'C18-3': ('.', 'TestDemo3', 'flush publishes file store and memstore in two steps', 'a query starting between the two steps', 'initial', 'C18.b'),
 'C19-1': ('rpc/server', 'TestDemo1', 'authorize compares only the shared prefix', 'empty / prefix / padded pwd metadata', 'initial', 'C19.a'),
 'C19-2': ('web', 'TestDemo2', 'authenticate keys on header presence, loses the Password != "" guard', 'OAuth configured, no Password, empty token header', 'initial', 'C19.c'),
 'C19-3': ('web', 'TestDemo3', '"recently verified" cache with an inverted freshness test', 'expired cookie re-verified once, later revoked', 'initial', 'C19.c'),
 'C20-1': ('rpc/server', 'TestDemo1', 'binaryExpr caches IsConstant in an unexported field the decoder does not restore', 'all-constant binary field in a non-pushdown cluster query', 'initial', 'C20.b'),
 'C20-2': ('rpc/server', 'TestDemo2', 'server.Insert validates before latching the stream name', 'a batch whose first point is invalid', 'strengthened', 'C20.e'),
 'C20-3': ('rpc/server', 'TestDemo3', 'omitempty on every RemoteQueryResult field', 'rows with an empty, non-nil key in a non-pushdown cluster query', 'strengthened', 'C20.e'),
}

# round 2 (two per property, sub-agents again given only the property text): /tmp/seedout2
T2 = {
 'C01-r2-1': ('.', 'TestDemo1Sorted', 'fileStore.flush passes okayToReuseBuffer=true also on sorted flushes', 'MaxMemoryRatio > 0, a forced flush, >= 2 file rows without pending memstore update', 'strengthened', 'C01.g (= C03.b buffer-reuse clause)'),
 'C01-r2-2': ('.', 'TestDemo2Cluster', 'sortedPartitionKeys sorts a copy instead of the caller\'s slice', 'cluster with >= 2 partitions, partitionby with >= 2 keys not in alphabetical order', 'strengthened', 'C01.g (= C10.c)'),
 'C02-r2-1': ('.', 'TestDemo1Kill', 'flush/offset temp files are created inside the table directory', 'a kill between the temp file\'s close and its rename', 'strengthened', 'C02.i'),
 'C02-r2-2': ('.', 'TestDemo2Follower', 'follower de-duplicates leader deliveries per source instead of per table', 'a follower killed between the flushes of two tables on one stream', 'strengthened', 'C02.j (= C12.a)'),
 'C03-r2-1': ('.', 'TestDemo1Alter', 'the row store adopts the new fields only after the ALTER-triggered flush', 'ALTER with unflushed data in the memstore', 'strengthened', 'C03.g (= C15.c)'),
 'C03-r2-2': ('.', 'TestDemo2Sorted', 'sorted flush reuses the read buffer while raw rows are retained by the sorter', 'MaxMemoryRatio > 0, forced flush, >= 2 untouched file rows', 'strengthened', 'C03.b'),
 'C04-r2-1': ('.', 'TestDemo1Query', 'a memstore being flushed is shared with queries; the first contribution to a group is taken as the result', 'a query during a flush over a key present in both stores', 'initial', 'C04.a + C04.i'),
 'C04-r2-2': ('.', 'TestDemo2Query', 'the query row loop may force memstore flushes when over the memory cap', 'MaxMemoryRatio > 0 and a query under memory pressure', 'strengthened', 'C04.c'),
 'C05-r2-1': ('encoding', 'TestDemo1Shift', 'shifted sub-merger strides by the width of the SHIFTed expression instead of the stored field\'s', 'SHIFT over a composite expression in a roll-up', 'strengthened', 'C05.e'),
 'C05-r2-2': ('encoding', 'TestDemo2Merge', 'Sequence.Merge returns the receiver instead of the newer operand when the older one is entirely expired', 'a dormant key that reports again after its stored series expired', 'strengthened', 'C05.e'),
 'C06-r2-1': ('.', 'TestDemo1Cluster', 'pushdownAllowed trusts any parameter of a GROUP BY expression (WalkParams)', 'cluster, GROUP BY a derived dimension of the partition key', 'strengthened', 'C06.f (= C11.b)'),
 'C06-r2-2': ('.', 'TestDemo2Coarse', 'group.Iterate reuses err for the tree walk and loses the scan error', 'coarser grouping over a scan that fails (damaged file store)', 'strengthened', 'C06.g (= C13.a, initially only under C13)'),
 'C07-r2-1': ('.', 'TestDemo1Coalesced', 'Sequence.Truncate reslices its input instead of copying', 'two coalesced windowed queries over memstore data', 'strengthened', 'C07.d (purity)'),
 'C07-r2-2': ('.', 'TestDemo2Empty', 'resolutionFor clamps a window-truncated resolution up to the table resolution', 'ASOF at or after UNTIL (empty or inverted window)', 'strengthened', 'C07.e'),
 'C08-r2-1': ('planner', 'TestDemo1Two', 'planSubQueries goroutines capture the range variables (go 1.12 semantics)', 'a WHERE with two or more IN-subqueries', 'strengthened', 'C08.e'),
 'C08-r2-2': ('planner', 'TestDemo2Having', 'group.Iterate appends _having before the CROSSTABT total columns', 'CROSSTABT together with HAVING', 'strengthened', 'C08.f'),
 'C09-r2-1': ('.', 'TestC09Demo1', 'addHaving returns a newly built FlatRow (no field list)', 'HAVING plus ORDER BY on a field', 'strengthened', 'C09.g'),
 'C09-r2-2': ('planner', 'TestC09Demo2', 'the sub-query ORDER/LIMIT/OFFSET test sits after the bottom-level return of pushdownAllowed (ported to HEAD after F23)', 'cluster, FROM-subquery with ORDER BY or LIMIT', 'strengthened', 'C09.f (= C11.b per-level clause)'),
 'C10-r2-1': ('.', 'TestDemo1Cluster', 'doFollowLeaders records the table\'s offset before the hand-over select', 'a table created on a running follower while entries are in flight', 'strengthened', 'C10.i (= C12.a, initially only under C12)'),
 'C10-r2-2': ('.', 'TestDemo2Mixed', 'table.insert skips the follower partition re-check for tables without PartitionBy', '>= 2 partitions, one stream feeding a keyed and a key-less table', 'strengthened', 'C10.h (= C01.b every-follower-entry clause)'),
 'C11-r2-1': ('planner', 'TestDemo1Nested', 'the nested IN-subquery guard is applied to the first FROM level only', 'IN-subquery two or more FROM levels down, >= 2 partitions', 'initial', 'C11.e'),
 'C11-r2-2': ('planner', 'TestDemo2NonOne', 'WalkOneToOneParams became WalkParams at the table level', 'GROUP BY SUBSTR(partition key)', 'initial', 'C11.b'),
 'C12-r2-1': ('.', 'TestC12Demo1', 'follower.submit uses a non-blocking send and marks the follower failed on a full queue', 'a slow follower and a burst larger than MaxFollowQueue', 'strengthened', 'C12.k'),
 'C12-r2-2': ('.', 'TestC12Demo2', 'sortedPartitionKeys sorts a copy', 'partitionby: [b, a]', 'strengthened', 'C12.j (= C10.c, initially only under C10)'),
 'C13-r2-1': ('.', 'TestC13Demo1', 'group.Iterate overwrites the scan error with the tree walk\'s nil', 'GROUP BY over a scan stopped by the memory cap', 'initial', 'C13.a'),
 'C13-r2-2': ('rpc/server', 'TestC13Demo2', 'HandleRemoteQueries treats io.EOF from the follower stream as a clean end', 'a stale follower handler after a NextQueryTimeout reconnect', 'strengthened', 'C13.h'),
 'C14-r2-1': ('.', 'TestDemo1Flush', 'Sequence.Merge discards the older operand when its OLDEST period is expired', 'a series straddling the retention boundary on disk, a new point, a flush', 'strengthened', 'C14.e'),
 'C14-r2-2': ('.', 'TestDemo2Expired', 'flush-time truncation extracted into a helper that loses the write-back', 'a key that stays live while older periods expire', 'initial', 'C14.b (shape: the Truncate call left doWrite; keep/drop rule)'),
 'C15-r2-1': ('.', 'TestDemo1Added', 'rs.fields adopted after the ALTER-triggered flush', 'ALTER on a non-empty memstore', 'initial', 'C15.c'),
 'C15-r2-2': ('.', 'TestDemo2NewWhere', 'applyWhere compares renderings and keeps the old WHERE when they print alike', 'a WHERE corrected only in its quoting', 'strengthened', 'C15.f'),
 'C16-r2-1': ('.', 'TestDemo1IllTyped', 'doInsert evaluates WHERE while holding whereMutex.RLock with explicit unlocks', 'an ill-typed dimension (Eval panics, recovered) followed by an ALTER', 'strengthened', 'C16.g'),
 'C16-r2-2': ('planner', 'TestDemo2ClusterQuery', 'concatForCrosstab copies with sql[start:idx+1]', 'leader mode, the word crosstab outside a call', 'strengthened', 'C16.f'),
 'C17-r2-1': ('.', 'TestDemo1Queries', 'iterations arriving during a coalesce window are handed over grouped by table only', '>= 3 queries on two tables in one window', 'initial', 'C17.f (floor: the coalescing append shape is gone)'),
 'C17-r2-2': ('.', 'TestDemo2Queries', 'the union of requested fields is de-duplicated by Name', 'queries prepared before and after an ALTER that redefines a field, in one window', 'initial', 'C17.c (anchor: the membership test is gone)'),
 'C18-r2-1': ('.', 'TestDemo1Array', 'each further value of an array point is applied under its own lock acquisition', 'an array-valued point and a memstore query during its application', 'initial', 'C18.b'),
 'C18-r2-2': ('.', 'TestDemo2QueryAfter', 'cached memstore copy invalidated on insert but not on flush', 'memstore query, flush without insert, memstore query', 'initial', 'C18.a'),
 'C19-r2-1': ('rpc/server', 'TestDemo1Remote', 'authorize moved into a stream interceptor that exempts client-streaming methods', 'a password and a caller registering a remote-query handler without it', 'initial', 'C19.a'),
 'C19-r2-2': ('web', 'TestDemo2Forged', 'cookie keys generated by rand.Read into a zero-length buffer', 'OAuth configured, cookie keys unset', 'strengthened', 'C19.d'),
 'C20-r2-1': ('rpc/server', 'TestDemo1', 'the receive loop of HandleRemoteQueries reuses one message object', 'a partition returning > 1 row and the merger lagging behind the receiver', 'strengthened', 'C20.g'),
 'C20-r2-2': ('rpc/server', 'TestDemo2Fresh', 'ProcessRemoteQuery derives the deadline context from stream.Context() again, dropping IncludeMemStore', 'a fresh query with a deadline on a cluster', 'strengthened', 'C20.h'),
}

# round 3 (two per property): /tmp/seedout3
T3 = {
 'C01-r3-1': ('.', 'TestDemo1If', 'ifExpr.Update returns the buffer unadvanced when the condition excludes the point', 'an IF-conditioned aggregate as a non-last operand of an arithmetic field and a point the condition rejects', 'strengthened', 'C01.h'),
 'C01-r3-2': ('.', 'TestDemo2Reads', 'rowStore.iterate copies the memstore and reads rs.fileStore in two separate critical sections', 'a flush completing while a query copies a large memstore', 'strengthened', 'C01.i (= C18.b; the lock-region rule caught it under C02/C03/C18 at once)'),
 'C02-r3-1': ('.', 'TestDemo1Reopen', 'CreateTable resumes the WAL reader from offsetsBySource[db.opts.ID] instead of [0]', 'a standalone DB with a non-zero ID, a flush, a restart', 'strengthened', 'C02.l'),
 'C02-r3-2': ('.', 'TestDemo2Two', 'a flushed table truncates the shared WAL up to its own persisted offset', 'two tables on one stream with different flush schedules, two kills', 'strengthened', 'C02.m'),
 'C03-r3-1': ('.', 'TestDemo1Flush', 'Tree.Walk skips the children of a node already removed for the context', 'the empty-key row on disk plus memstore keys below it', 'strengthened', 'C03.h'),
 'C03-r3-2': ('.', 'TestDemo2Forced', 'a forced flush is skipped when the last flush is younger than MinFlushLatency', 'MinFlushLatency > 0 and FlushAll shortly after a flush', 'strengthened', 'C03.i'),
 'C04-r3-1': ('.', 'TestDemo1Timed', 'rowStore.iterate marks the file store corrupted when a scan returns an error other than the std context errors', 'an unflat remote query whose deadline expires mid-scan', 'strengthened', 'C04.d'),
 'C04-r3-2': ('.', 'TestDemo2Percentile', 'binaryExpr.DeAggregate rewrites its receiver in place', 'a 5-argument PERCENTILE over an arithmetic expression on an arithmetic table field', 'strengthened', 'C04.e'),
 'C05-r3-1': ('encoding', 'TestDemo1Merge', 'Sequence.Merge appends the older sequence onto the newer one in place when they are exactly adjacent', 'the newer operand being a sub-slice with foreign capacity behind it', 'initial', 'C05.a (purity)'),
 'C05-r3-2': ('encoding', 'TestDemo2SubMerge', 'Sequence.SubMerge reads Until() of the receiver before truncating it', 'a stored coarse series reaching past the roll-up until', 'strengthened', 'C05.h'),
 'C06-r3-1': ('.', 'TestDemo1C06', 'fielded.init keeps the field lookup map between resolutions', 'a derived field whose alias equals a source column, re-aggregated', 'strengthened', 'C06.i'),
 'C06-r3-2': ('.', 'TestDemo2C06', 'aggregate.Merge merges an unset incoming period as 0 when the destination is set', 'MIN over positive / MAX over negative values with gaps, re-aggregated', 'strengthened', 'C06.h (= C05.d, initially only under C05)'),
 'C07-r3-1': ('.', 'TestDemo1Compound', 'ParseDuration hoists the per-component fraction and scale out of the component loop', 'a compound relative offset whose earlier component has a fraction', 'strengthened', 'C07.f'),
 'C07-r3-2': ('.', 'TestDemo2Relative', 'DB.now returns the table high-water mark instead of the clock', 'a relative offset on a table whose newest point lags the database clock', 'strengthened', 'C07.g'),
 'C08-r3-1': ('planner', 'TestDemo1Outer', 'unflatten.Iterate reuses one output Vals slice for all rows', 'an outer CROSSTAB over a FROM-subquery returning more than one row', 'strengthened', 'C08.h'),
 'C08-r3-2': ('planner', 'TestDemo2Having', 'the = and <> conditions compare with a relative epsilon', 'two compared values within 0.001 % of each other', 'strengthened', 'C08.g'),
 'C09-r3-1': ('planner', 'TestDemo1OrderBy', 'Less swaps the row variables for _time DESC, the swap survives into later keys', '_time DESC in a non-final position with ties', 'initial', 'C09.a'),
 'C09-r3-2': ('planner', 'TestDemo2Cluster', 'planClusterNonPushdown applies ORDER/LIMIT/OFFSET before HAVING', 'cluster non-pushdown query with HAVING and LIMIT', 'strengthened', 'C09.c (returns the slice of the order itself)'),
 'C10-r3-1': ('.', 'TestDemo1Cluster', 'the deep copy of the follower specs loses each table whereString', 'two join events, two tables with different WHERE on one stream', 'strengthened', 'C10.j'),
 'C10-r3-2': ('.', 'TestDemo2Cluster', 'partitionFor falls back to hashing all dims whenever no key value was hashed', 'points lacking the partition key on a partitioned table, a pushdown query', 'strengthened', 'C10.k'),
 'C11-r3-1': ('planner', 'TestDemo1Absolute', 'planClusterNonPushdown no longer resets query.AsOf/Until before the leader group-by', 'a non-pushdown cluster query with absolute ASOF/UNTIL off the resolution grid', 'strengthened', 'C11.i'),
 'C11-r3-2': ('planner', 'TestDemo2InSub', 'pointsAndHavingFieldSource returns only _points when the query has no HAVING flag', 'a non-pushed-down IN-subquery with HAVING on a cluster', 'strengthened', 'C11.j (= C08.i)'),
 'C13-r3-1': ('planner', 'TestC13Demo1', 'IN-subqueries run under a derived context with half the remaining time', 'a sub-query needing more than half of the deadline, an outer query fitting in the rest', 'strengthened', 'C13.i'),
 'C13-r3-2': ('.', 'TestC13Demo2', 'the shared scan treats (more=false, err) as a voluntary stop', 'a deadline or memory-cap error in a plan without a later deadline test', 'initial', 'C13.a'),
 'C14-r3-1': ('.', 'TestDemo1', 'CreateTable truncates RetentionPeriod to a multiple of the resolution', 'retention that is not a whole multiple of the resolution', 'strengthened', 'C14.f'),
 'C14-r3-2': ('.', 'TestDemo2', 'flush rounds the truncation boundary up to the period grid', 'clock off the period grid, in-retention data in the boundary period, a truncating flush', 'initial', 'C14.b'),
 'C15-r3-1': ('.', 'TestDemo1Added', 'fileStore.iterate hoists the per-row columns slice out of the file-row loop', 'ALTER adding a field while the file keeps its old header, values for two on-disk keys', 'strengthened', 'C15.h'),
 'C15-r3-2': ('.', 'TestDemo2NewWhere', 'openRowStore resumes from the data file header only, ignoring the offset file', 'rejected points, restart, a WHERE change admitting them', 'strengthened', 'C15.g (= C02.f, initially only under C02/C03/C12)'),
 'C16-r3-1': ('.', 'TestDemo1', 'PERCENTILE arity guard loosened to 2..5', 'PERCENTILE with 3 or 4 arguments', 'strengthened', 'C16.i'),
 'C16-r3-2': ('.', 'TestDemo2', 'InsertRaw evaluates dims.AsMap() unconditionally as a Tracef argument', 'a truncated or garbled raw dimension map', 'strengthened', 'C16.j'),
 'C12-r3-1': ('.', 'TestC12R3Demo1', 'makeFollows combines the tables\' offsets with OffsetsBySource.Advance (the maximum) instead of the minimum', 'a follower restarted from an image in which its tables are persisted at different WAL positions', 'strengthened', 'C12.l'),
 'C12-r3-2': ('.', 'TestC12R3Demo2', 'reducePartitionRequests sorts the workers\' results by offset.Position() only', 'a routing batch spanning two WAL segments (leader restart) while a follower is behind, >= 3 CPUs', 'strengthened', 'C12.m'),
 'C17-r3-1': ('.', 'TestDemo1Coalesced', 'the delivery loop stores an iteration\'s error into the shared err variable', 'coalescing, a query failing inside the scan that arrived before the victim', 'strengthened', 'C17.h'),
 'C17-r3-2': ('.', 'TestDemo2EarlyStop', 'combinedOnValue skips iterations that have no non-nil column on a row', 'coalescing, a co-scheduled query that stops early, a later-added field only in the memstore', 'strengthened', 'C17.h'),
 'C18-r3-1': ('.', 'TestC18Demo1', 'Tree.Copy returns the receiver when the tree is empty', 'a memstore query right after a flush, inserts arriving mid-scan', 'strengthened', 'C18.c'),
 'C18-r3-2': ('.', 'TestC18Demo2', 'rowMerger re-reads truncateBefore() per row', 'keys in both stores and an insert that advances the clock mid-scan', 'strengthened', 'C18.c'),
 'C19-r3-1': ('web', 'TestDemo1Expired', 'authenticate re-issues the session cookie (new helper setAuthCookie) before userInOrg is consulted', 'an expired cookie of a removed user: the refusal carries a fresh cookie', 'strengthened', 'C19.c (issuance checked through helper call sites)'),
 'C19-r3-2': ('rpc/server', 'TestDemo2Repeated', 'authorize routes refusals through a log-throttling helper that returns nil when the log is suppressed', 'two unauthorized calls within a minute', 'initial', 'C19.a'),
 'C20-r3-1': ('rpc/server', 'TestDemo1', 'MsgPackCodec.Marshal encodes into a pooled buffer and returns its bytes', 'a message larger than one HTTP/2 frame followed by another send', 'strengthened', 'C20.i'),
 'C20-r3-2': ('rpc/server', 'TestDemo2Follower', 'every receive error from a follower is marked retriable', 'a follower stream dying mid-result with a redundant handler registered', 'strengthened', 'C20.j'),
}

# round 4 (one per property): /tmp/seedout4
T4 = {
 'C01-r4-1': ('.', 'TestDemo1CoalescedFullQuerySeesAllRows', 'combinedOnValue returns the last visited iteration\'s more flag instead of accumulating true', 'two coalesced queries, one stopping early and visited last in map order', 'strengthened', 'C01.j (= C17.h; C17.e reports the same change under C17)'),
 'C02-r4-1': ('.', 'TestDemo1AcknowledgedInsertsSurviveKillAfterFlush', 'backfillTo treats an unset Backfill as backfill nothing: persisted offsets are replaced by now on restart', 'default TableOpts.Backfill, a flush, unflushed inserts, a kill', 'strengthened', 'C02.n'),
 'C03-r4-1': ('.', 'TestDemoQueryStableWhileFlushing', 'rowStore.iterate copies the memstore and picks up rs.fileStore in two separate critical sections', 'a flush completing between the two sections of a memstore-inclusive query', 'initial', 'C03.e'),
 'C04-r4-1': ('.', 'TestDemoC04QueryOnShiftedFieldIsReadOnly', 'SHIFT() folds a nested shift by rewriting the shared inner shift node', 'a query applying SHIFT to a table field that is itself a SHIFT', 'strengthened', 'C04.e (generalised to all functions of package expr)'),
 'C05-r4-1': ('expr', 'TestDemoIfSubMergeEqualsDirect', 'ifExpr.SubMergers adds the wrapped operand\'s sub-mergers even when the IF itself matched a source field', 'a table storing both X and IF(cond, X)', 'strengthened', 'C05.i'),
 'C06-r4-1': ('.', 'TestDemoC06ConditionalFieldRegroup', 'ifExpr.SubMergers adds the wrapped operand\'s sub-mergers even when the IF itself matched a source field', 'a table storing both X and IF(cond, X), re-grouped', 'strengthened', 'C06.j (= C05.i)'),
 'C07-r4-1': ('planner', 'TestDemoWindowedValuesMatchUnbounded', 'ifExpr.Shift returns 0 instead of the wrapped expression\'s shift', 'IF(cond, SHIFT(x, -n)) with ASOF/UNTIL', 'strengthened', 'C07.h'),
 'C08-r4-1': ('.', 'TestDemoC08LargeIntegerDimFilter', 'numeric literals of predicates are parsed with ParseFloat and converted back to int', 'integer dimension values above 2^53', 'strengthened', 'C08.j'),
 'C09-r4-1': ('planner', 'TestDemo1LimitOffsetSliceOrderedResult', 'applyLimit uses sqlparser Limit.Limits(), which parses with base 0', 'a zero-padded LIMIT/OFFSET literal such as 010', 'strengthened', 'C09.h'),
 'C10-r4-1': ('.', 'TestDemoC10SharedPartitionKeys', 'followLeaders copies the existing tables of a partition-key group into a zero-length slice', 'two tables on one stream with the same partition keys, the later with the stricter WHERE', 'strengthened', 'C10.l'),
 'C11-r4-1': ('planner', 'TestC11Demo1ClusterEqualsLocalWithTwoInSubQueries', 'planSubQueries ships only non-empty IN-subquery result sets', 'two IN-subqueries, one empty cluster-wide, at least two partitions', 'strengthened', 'C11.k'),
 'C12-r4-1': ('.', 'TestDemoC12FollowerGetsEveryPointOnce', 'enqueuePartitionRequests no longer waits for a batch to drain before feeding the next', 'a burst of more than NumCPU-1 entries with one slow to map, >= 3 CPUs', 'strengthened', 'C12.n'),
 'C13-r4-1': ('.', 'TestDemoC13PartitionFailureDoesNotTruncateHealthyPartitions', 'queryCluster calls stop() when a partition fails non-retriably', 'one partition failing while another still streams', 'strengthened', 'C13.j'),
 'C14-r4-1': ('.', 'TestDemoC14ExpiredDataNotReturnedAtCoarserResolution', 'group.GetAsOf moves asOf back to a whole multiple of the query resolution', 'a GROUP BY period that does not divide the retention window and expired rows still on disk', 'strengthened', 'C14.g'),
 'C15-r4-1': ('.', 'TestDemo1RejectedPointsStayRejectedAfterWhereChangeAndRestart', 'processInserts records the offset of only every 64th rejected entry', 'fewer than 64 trailing rejected points, a widened WHERE, a restart', 'strengthened', 'C15.i (C02.h reports it under C02)'),
 'C16-r4-1': ('planner', 'TestDemoC16CrosshiftSigns', 'CROSSHIFT makes the interval positive only when the cutoff is negative', 'CROSSHIFT(x, positive cutoff, negative interval)', 'strengthened', 'C16.k'),
 'C17-r4-1': ('.', 'TestDemoC17CoalescedLimit', 'combinedOnValue returns the last visited iteration\'s more flag', 'a coalesced LIMIT query visited last in map order', 'initial', 'C17.e'),
 'C18-r4-1': ('.', 'TestDemoC18QueryDuringFlush$', 'Sequence.Merge merges in place when the newer operand already spans the older one', 'a memstore-inclusive query starting while a flush is between two file rows', 'strengthened', 'C18.d (= purity, reported under C05/C06/C07/C17 at once)'),
 'C19-r4-1': ('web', 'TestDemoSessionFromLoginExpires', 'oauthCode stores the cookie lifetime (365 days) as the session expiry', 'login, removal from the organisation, replay of the cookie after sessionTimeout', 'strengthened', 'C19.e'),
 'C20-r4-1': ('rpc/server', 'TestDemoLargeRowFromFollower', 'PrepareServer caps inbound messages at 1 MiB', 'a clustered non-pushdown query with an unflat row between 1 and 4 MiB', 'strengthened', 'C20.k'),
}

# round 5 (six properties): /tmp/seedout5
T5 = {
 'C03-r5-1': ('.', 'TestDemo1SortedFlushLargerThanSortBuffer', 'the sorted flush reads rows back with r.Read(row) instead of io.ReadFull', 'MaxMemoryRatio > 0, a sorted flush that spills to two or more sort files, a row straddling the 64 KiB reader buffer', 'strengthened', 'C03.j'),
 'C08-r5-1': ('planner', 'TestDemo1InSubQueryWithNullDim', 'the IN-subquery row callback skips rows whose dimension is missing', 'a sub-query returning a row without the dimension and outer rows lacking it too', 'strengthened', 'C08.k'),
 'C12-r5-1': ('.', 'TestDemoC12', 'the follower records a table offset before the entry is handed to the table', 'a re-follow (table created mid-stream) while an entry is in flight', 'initial', 'C12.a'),
 'C14-r5-1': ('.', 'TestDemo1ExpiredQuietKeyLeavesDisk', 'doWrite truncates only columns holding more periods than the retention window', 'a key that goes quiet while others keep the clock and the flushes going', 'strengthened', 'C14.h'),
 'C15-r5-1': ('.', 'TestDemoC15', 'doProcessFlush builds the new fileStore from the previous one (fs.fields) instead of rs.fields', 'ALTER adding a field on a running table, points for it, one or two flushes', 'strengthened', 'C15.j'),
 'C19-r5-1': ('web', 'TestDemoUnauthenticatedQueryGetsNoData', 'sqlQuery falls through to the query when authenticate already sent the OAuth redirect', 'OAuth configured, a caller that reads the body of the 307', 'initial', 'C19.b'),
}

# confirmed to break the property, but they also fail the baseline's stable TestServers subtests when the
# server package is run alone in a private network namespace on an idle machine: not kept
DROPPED = {'C04-1', 'C10-r2-2', 'C02-r4-1', 'C12-r4-1'}

def main():
    os.makedirs(DST, exist_ok=True)
    n = 0
    allT = dict(T)
    allT.update(T2)
    allT.update(T3)
    allT.update(T4)
    allT.update(T5)
    for key, (ddir, pat, what, needs, status, rule) in sorted(allT.items()):
        if key in DROPPED:
            continue
        parts = key.split('-')
        prop, k = parts[0], parts[-1]
        src = os.path.join('/tmp/seedout5' if 'r5' in parts else '/tmp/seedout4' if 'r4' in parts else '/tmp/seedout3' if 'r3' in parts else ('/tmp/seedout2' if 'r2' in parts else SRC), prop)
        cj = os.path.join(src, 'confirm%s.json' % k)
        if not os.path.exists(cj):
            print('skip (no confirmation yet):', key)
            continue
        conf = json.load(open(cj))
        if not (conf.get('apply') and conf.get('build') == 'ok' and conf.get('demo_with_change') == 'fail' and conf.get('demo_without_change') == 'pass'):
            print('NOT CONFIRMED:', key, conf)
            continue
        d = os.path.join(DST, key)
        os.makedirs(d, exist_ok=True)
        applied = os.path.join(src, 'confirm%s.applied.diff' % k)
        ported = None
        try:
            ported = json.load(open(os.path.join(d, 'meta.json'))).get('ported')
        except Exception:
            pass
        if not ported:
          shutil.copy(applied if os.path.exists(applied) and os.path.getsize(applied) > 0 else os.path.join(src, 'change%s.diff' % k), os.path.join(d, 'patch.diff'))
        demo = os.path.join(src, 'demo%s_test.go' % k)
        shutil.copy(demo, os.path.join(d, 'demo_test.go.txt'))
        notes = os.path.join(src, 'NOTES.md')
        meta = {
            'id': key,
            'property': prop,
            'breaks': what,
            'needs_to_manifest': needs,
            'demo': {'file': 'demo_test.go.txt', 'place_in': ddir, 'as': 'zz_demo_test.go',
                     'run': 'go test -vet=off -count=1 -run %s ./%s/' % (pat, ddir) if ddir != '.' else 'go test -vet=off -count=1 -run %s .' % pat},
            'confirmed': {
                'how': 'tools/confirm_seed.sh in a scratch git worktree of /repo HEAD (removed afterwards): git apply; go build ./...; demo with the change; full suite; git reset; demo without the change',
                'applies': True, 'build': conf['build'],
                'demo_with_change': conf['demo_with_change'], 'demo_without_change': conf['demo_without_change'],
                'suite_failures_with_change': conf['suite_failures'].rstrip(','),
                'suite_note': 'server.TestServers and encoding.TestSequenceOnly fail/flake in the baseline itself (BASELINE.json); "allpass" = no failure at all',
            },
            'detection': {'status': status, 'by': rule},
            'origin': 'independent sub-agent given only the property text and a scratch worktree',
        }
        if ported:
            meta['ported'] = ported
        vs = os.path.join('/tmp/vsout', key + '.json')
        if os.path.exists(vs):
            meta['confirmed']['server_package_isolated'] = json.load(open(vs))
            meta['confirmed']['server_note'] = 'server.TestServers uses fixed ports; it was re-run alone in a private network namespace (tools/verify_server.sh) with the change applied; ClusterComplex.2 and ClusterMultiLeader.1 are the subtests the baseline lists as stable'
        json.dump(meta, open(os.path.join(d, 'meta.json'), 'w'), indent=1)
        n += 1
    print('collected', n)

if __name__ == '__main__':
    main()
