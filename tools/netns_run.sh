#!/bin/bash
# run a command inside a fresh network namespace with loopback up
ip link set lo up 2>/dev/null
exec "$@"
