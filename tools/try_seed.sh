#!/bin/bash
# try_seed.sh <diff> <prop> [<prop>...] : apply diff in a scratch worktree, run zcheck for the properties, show failures.
DIFF=$1; shift
WT=/tmp/ts/$$; mkdir -p /tmp/ts
git -C /repo worktree add -q --detach $WT HEAD || exit 2
cd $WT && (git apply $DIFF 2>/dev/null || git apply --3way $DIFF) || { echo "APPLY FAILED"; cd /; git -C /repo worktree remove --force $WT; exit 2; }
for P in "$@"; do
  mkdir -p /tmp/zout/ts; cp /verif/known_findings.json /tmp/zout/ts/; ${ZCHECK:-/verif/bin/zcheck} -p $P -repo $WT -verif /tmp/zout/ts 2>&1 | grep -v "^OK" | cut -c1-${WIDTH:-260}
done
cd /; git -C /repo worktree remove --force $WT
