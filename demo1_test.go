package zenodb

import (
	"context"
	"fmt"
	"io/ioutil"
	"os"
	"path/filepath"
	"sort"
	"strings"
	"sync"
	"testing"
	"time"

	"github.com/getlantern/zenodb/core"
)

// TestDemoC17CoalescedLimit runs one unbounded query together with a few
// LIMIT 1 queries against the same table, first each one alone and then all of
// them at the same time (so that they are served by one shared scan). Every
// query has to return the same rows in both cases.
func TestDemoC17CoalescedLimit(t *testing.T) {
	tmpDir, err := ioutil.TempDir("", "zenodbdemoc17")
	if err != nil {
		t.Fatal(err)
	}
	defer os.RemoveAll(tmpDir)

	schema := `
demo_t:
  maxflushlatency: 1ms
  retentionperiod: 200s
  sql: >
    SELECT SUM(a) AS a, SUM(b) AS b
    FROM inbound
    GROUP BY d, period(1s)
`
	schemaFile := filepath.Join(tmpDir, "schema.yaml")
	if err := ioutil.WriteFile(schemaFile, []byte(schema), 0644); err != nil {
		t.Fatal(err)
	}

	db, err := NewDB(&DBOpts{
		Dir:                       filepath.Join(tmpDir, "data"),
		SchemaFile:                schemaFile,
		VirtualTime:               true,
		IterationCoalesceInterval: 250 * time.Millisecond,
	})
	if err != nil {
		t.Fatal(err)
	}
	defer db.Close()

	epoch := time.Date(2015, time.January, 1, 2, 3, 4, 5, time.UTC)
	db.clock.Advance(epoch)

	const numKeys = 12
	for i := 0; i < numKeys; i++ {
		err := db.Insert("inbound", epoch,
			map[string]interface{}{"d": fmt.Sprintf("k%02d", i)},
			map[string]interface{}{"a": i + 1, "b": 100 + i})
		if err != nil {
			t.Fatal(err)
		}
	}
	// let the inserts reach the memstore, then put them on disk
	time.Sleep(1 * time.Second)
	db.FlushAll()
	time.Sleep(500 * time.Millisecond)

	run := func(sqlString string) ([]string, error) {
		source, err := db.Query(sqlString, false, nil, true)
		if err != nil {
			return nil, err
		}
		var rows []string
		_, err = source.Iterate(context.Background(), func(core.Fields) error {
			return nil
		}, func(row *core.FlatRow) (bool, error) {
			rows = append(rows, fmt.Sprintf("%d|%v|%v", row.TS, row.Key.AsMap(), row.Values))
			return true, nil
		})
		sort.Strings(rows)
		return rows, err
	}

	queries := []string{
		"SELECT * FROM demo_t",
		"SELECT * FROM demo_t LIMIT 1",
		"SELECT * FROM demo_t LIMIT 1",
		"SELECT * FROM demo_t LIMIT 1",
		"SELECT * FROM demo_t LIMIT 1",
		"SELECT * FROM demo_t LIMIT 1",
		"SELECT * FROM demo_t LIMIT 1",
		"SELECT * FROM demo_t LIMIT 1",
	}

	// Each query alone
	solo := make([][]string, len(queries))
	for i, q := range queries {
		rows, err := run(q)
		if err != nil {
			t.Fatalf("solo %q: %v", q, err)
		}
		solo[i] = rows
	}
	if len(solo[0]) != numKeys {
		t.Fatalf("expected the unbounded query to return %d rows when run alone, got %d", numKeys, len(solo[0]))
	}
	if len(solo[1]) != 1 {
		t.Fatalf("expected LIMIT 1 to return 1 row when run alone, got %d", len(solo[1]))
	}

	// All of them at the same time, several rounds
	const rounds = 10
	for round := 0; round < rounds; round++ {
		results := make([][]string, len(queries))
		errs := make([]error, len(queries))
		var wg sync.WaitGroup
		start := make(chan struct{})
		for i, q := range queries {
			wg.Add(1)
			go func(i int, q string) {
				defer wg.Done()
				<-start
				results[i], errs[i] = run(q)
			}(i, q)
		}
		close(start)
		wg.Wait()

		for i, q := range queries {
			if errs[i] != nil {
				t.Fatalf("round %d: %q failed when run concurrently: %v", round, q, errs[i])
			}
			if strings.Join(results[i], "\n") != strings.Join(solo[i], "\n") {
				t.Fatalf("round %d: %q returned %d row(s) when run concurrently with the others but %d row(s) when run alone\nconcurrent:\n%v\nalone:\n%v",
					round, q, len(results[i]), len(solo[i]), strings.Join(results[i], "\n"), strings.Join(solo[i], "\n"))
			}
		}
	}
}
