package main

import (
	"fmt"
	"go/token"
	"go/types"
	"sort"
	"strings"

	"golang.org/x/tools/go/ssa"
)

// errflow engine.
//
// For a call site producing an error value e:
//  E1  e is not dropped (the error result is extracted and used).
//  E2  on every CFG path on which e may be non-nil, control reaches either
//      a Return whose error operand carries e (e itself, a phi that took e on
//      this path, a wrapper of e, a load of a cell e was stored to) or is a
//      provably non-nil error, or a sink (send on a channel, store into a
//      struct field, call of a listed failure-bookkeeping function), or a panic.
//
// The exploration is path-sensitive in the set of "carrier" values only
// (finite: subsets of the function's values that derive from e).

type errflowCfg struct {
	// sinkCalls: callee names; a call with a carrier argument discharges the path.
	sinkCalls map[string]bool
	// sinkDynamic: allow dynamic calls (closures / func values) with a carrier
	// argument whose *static type* signature has an error parameter to count
	// as sink when named here by the variable's name (resolved via cell names).
	sinkDynNames map[string]bool
	// swallow: callee names of comparisons that legitimately swallow a specific
	// sentinel: global names (e.g. "z/core.ErrDeadlineExceeded", "io.EOF").
	swallowSentinels map[string]bool
	// swallowPred: calls with carrier argument whose true edge means "handled
	// elsewhere" (e.g. common.Retriable → retried).
	swallowPreds map[string]bool
	// swallowTypes: comma-ok type assertion of the error to one of these types:
	// the true side is handled elsewhere (retry).
	swallowTypes map[string]bool
	// sinkInstr: an instruction that records the failure (bookkeeping).
	sinkInstr func(ssa.Instruction) bool
	// requireSink: returning the error does not count (used for callee
	// summaries: "this function delivers its error parameter").
	requireSink bool
}

func (c *errflowCfg) sinkOnly() *errflowCfg {
	n := *c
	n.requireSink = true
	return &n
}

// wrapCallees: calls that return a value carrying their error argument.
var wrapCallees = map[string]bool{
	"fmt.Errorf":                        true,
	"fmt.Sprintf":                       true,
	"fmt.Sprint":                        true,
	"github.com/getlantern/errors.New":  true,
	"github.com/getlantern/errors.Wrap": true,
	"invoke (github.com/getlantern/golog.Logger).Errorf": true,
	"invoke (github.com/getlantern/golog.Logger).Error":  true,
	"invoke (error).Error":                               true,
	"errors.New":                                         true,
	"(*github.com/getlantern/errors.structured).Error":   true,
	"invoke (github.com/getlantern/errors.Error).Error":  true,
	"google.golang.org/grpc/status.Errorf":               true,
	"google.golang.org/grpc.Errorf":                      true,
}

// nonNilErrCallees: calls whose error result is never nil.
var nonNilErrCallees = map[string]bool{
	"fmt.Errorf":                       true,
	"errors.New":                       true,
	"github.com/getlantern/errors.New": true,
	"invoke (github.com/getlantern/golog.Logger).Errorf": true,
	"invoke (github.com/getlantern/golog.Logger).Error":  true,
	"google.golang.org/grpc/status.Errorf":               true,
	"google.golang.org/grpc.Errorf":                      true,
}

type efResult struct {
	ok     bool
	reason string
	path   []string
}

// errValueOf returns the SSA value carrying the error result of call c, the
// index of that result, and whether the callee has an error result at all.
func errValueOf(c ssa.CallInstruction) (v ssa.Value, has bool) {
	sig := c.Common().Signature()
	res := sig.Results()
	idx := -1
	for i := 0; i < res.Len(); i++ {
		if isErrorType(res.At(i).Type()) {
			idx = i
		}
	}
	if idx < 0 {
		return nil, false
	}
	call, ok := c.(*ssa.Call)
	if !ok {
		return nil, true // go/defer: result discarded
	}
	if res.Len() == 1 {
		if len(liveReferrers(call)) == 0 {
			return nil, true
		}
		return call, true
	}
	r := resultOf(call, idx)
	if r == nil {
		return nil, true
	}
	if len(liveReferrers(r)) == 0 {
		return nil, true
	}
	return r, true
}

func liveReferrers(v ssa.Value) []ssa.Instruction {
	var out []ssa.Instruction
	if v.Referrers() == nil {
		return nil
	}
	for _, r := range *v.Referrers() {
		if _, ok := r.(*ssa.DebugRef); ok {
			continue
		}
		out = append(out, r)
	}
	return out
}

type carrierSet map[ssa.Value]bool

func (s carrierSet) key() string {
	var ks []string
	for v := range s {
		ks = append(ks, v.Name()+fmt.Sprintf("@%p", v))
	}
	sort.Strings(ks)
	return strings.Join(ks, ",")
}
func (s carrierSet) clone() carrierSet {
	n := carrierSet{}
	for k := range s {
		n[k] = true
	}
	return n
}

// errflowE2 explores from the instruction defining e.
func errflowE2(P *Prog, e ssa.Value, cfg *errflowCfg) efResult {
	return errflowFrom(P, e, cfg, 0)
}

// errflowFrom: e is an instruction (explore from just after it) or a
// parameter / free variable (explore from function entry).
func errflowFrom(P *Prog, e ssa.Value, cfg *errflowCfg, depth int) efResult {
	var def ssa.Instruction
	var fn *ssa.Function
	switch x := e.(type) {
	case *ssa.Parameter:
		fn = x.Parent()
	case *ssa.FreeVar:
		fn = x.Parent()
	case ssa.Instruction:
		def = x
		fn = x.Parent()
	default:
		return efResult{false, "error value is neither an instruction nor a parameter", nil}
	}
	if len(fn.Blocks) == 0 {
		return efResult{false, "function without body", nil}
	}
	start := carrierSet{e: true}
	if def != nil {
		b := def.Block()
		return errflowCore(P, fn, def, b, idxIn(b, def)+1, start, cfg, depth)
	}
	return errflowCore(P, fn, nil, fn.Blocks[0], 0, start, cfg, depth)
}

// errflowFromEdge: every Return reachable from the CFG edge from->to must
// return a provably non-nil error (or pass a sink). Used for "condition C
// observed => the caller is told".
func errflowFromEdge(P *Prog, from, to *ssa.BasicBlock, cfg *errflowCfg) efResult {
	return errflowCore(P, from.Parent(), nil, to, 0, enterBlock(carrierSet{}, from, to), cfg, 0)
}

func errflowCore(P *Prog, fn *ssa.Function, def ssa.Instruction, startBlock *ssa.BasicBlock, startIdx int, start carrierSet, cfg *errflowCfg, depth int) efResult {
	type state struct {
		b     *ssa.BasicBlock
		from  int // index in b.Instrs to start at
		car   carrierSet
		trail []string
	}
	visited := map[string]bool{}
	var fail *efResult
	var explore func(st state)
	isCarrier := func(car carrierSet, v ssa.Value) bool {
		v = strip(v)
		if car[v] {
			return true
		}
		// load of a carrier cell
		if u, ok := v.(*ssa.UnOp); ok && u.Op == token.MUL {
			if car[cellRoot(u.X)] || car[u.X] {
				return true
			}
			// another load of the same field of the same base as a carrier
			if _, isFA := u.X.(*ssa.FieldAddr); isFA {
				for cv := range car {
					if cu, ok := cv.(*ssa.UnOp); ok && cu.Op == token.MUL && cu != u {
						if _, ok := cu.X.(*ssa.FieldAddr); ok && sameValue(cu, u) {
							return true
						}
					}
				}
			}
		}
		return false
	}
	hasErrResult := false
	res := fn.Signature.Results()
	for i := 0; i < res.Len(); i++ {
		if isErrorType(res.At(i).Type()) {
			hasErrResult = true
		}
	}
	explore = func(st state) {
		if fail != nil {
			return
		}
		k := fmt.Sprintf("%d/%d/%s", st.b.Index, st.from, st.car.key())
		if visited[k] {
			return
		}
		visited[k] = true
		car := st.car
		for i := st.from; i < len(st.b.Instrs); i++ {
			in := st.b.Instrs[i]
			if def != nil && in == def && st.from == 0 {
				// e is redefined (loop): paths from here are covered by the
				// exploration that started at the definition
				return
			}
			switch x := in.(type) {
			case *ssa.Send:
				if isCarrier(car, x.X) {
					return // sink: sent on a channel
				}
				if isErrorType(x.X.Type()) && provablyNonNilErr(x.X, st.b) {
					return // a different, provably non-nil error is delivered instead
				}
			case *ssa.Store:
				if isCarrier(car, x.Val) {
					switch a := x.Addr.(type) {
					case *ssa.FieldAddr:
						// stored into a struct field: sink only if the struct
						// itself is then sent/returned — approximated by the
						// sink table in cfg (checked by the caller via field key)
						f := fieldVar(a.X.Type(), a.Field)
						if f != nil && cfg.sinkCalls["field "+fieldKey(a.X.Type(), f)] {
							return
						}
						car = car.clone()
						car[x.Addr] = true
					default:
						car = car.clone()
						car[cellRoot(x.Addr)] = true
					}
				} else if car[cellRoot(x.Addr)] {
					// cell overwritten with something else
					if _, isAlloc := cellRoot(x.Addr).(*ssa.Alloc); isAlloc {
						car = car.clone()
						delete(car, cellRoot(x.Addr))
					}
				}
			case ssa.CallInstruction:
				cn := calleeName(x)
				carArg := false
				for _, a := range x.Common().Args {
					if isCarrier(car, a) {
						carArg = true
					}
				}
				if x.Common().IsInvoke() && isCarrier(car, x.Common().Value) {
					carArg = true
				}
				if carArg {
					if cfg.sinkCalls[cn] {
						return
					}
					// interprocedural: a module function (incl. closures) that
					// itself delivers its error parameter on every path
					if sc := x.Common().StaticCallee(); sc != nil && inModule(sc) && depth < 3 && len(sc.Blocks) > 0 && !wrapCallees[cn] {
						delivered := false
						for ai, a := range x.Common().Args {
							if isCarrier(car, a) && ai < len(sc.Params) {
								if r := errflowFrom(P, sc.Params[ai], cfg.sinkOnly(), depth+1); r.ok {
									delivered = true
								}
							}
						}
						if delivered {
							return
						}
					}
					if cn == "dynamic" {
						// closure call: resolve variable name of the callee value
						if nm := dynName(x.Common().Value); nm != "" && cfg.sinkDynNames[nm] {
							return
						}
					}
					if wrapCallees[cn] {
						if v, ok := x.(ssa.Value); ok {
							car = car.clone()
							car[v] = true
						}
					}
				}
			case *ssa.MapUpdate:
				if cfg.sinkInstr != nil && cfg.sinkInstr(x) {
					return
				}
			case *ssa.Select:
				for _, stt := range x.States {
					if stt.Send != nil && isCarrier(car, stt.Send) {
						return // offered on a channel (first error wins)
					}
				}
			case *ssa.Extract:
				if car[x.Tuple] {
					car = car.clone()
					car[x] = true
				}
			case *ssa.Panic:
				return // crash, not a silent success
			case *ssa.Return:
				if !hasErrResult {
					r := efResult{false, "function returns (no error result) on a path where the error may be non-nil without passing it to a sink", append(st.trail, P.Pos(x.Pos()))}
					fail = &r
					return
				}
				okRet := false
				if cfg.requireSink {
					r := efResult{false, "callee returns without delivering its error parameter", append(st.trail, P.Pos(x.Pos()))}
					fail = &r
					return
				}
				for _, rv := range x.Results {
					if !isErrorType(rv.Type()) {
						continue
					}
					if isCarrier(car, rv) || provablyNonNilErr(rv, x.Block()) {
						okRet = true
					}
				}
				if !okRet {
					r := efResult{false, "a return is reachable with the error possibly non-nil, but it returns a different (possibly nil) error", append(st.trail, "return at "+P.Pos(x.Pos()))}
					fail = &r
				}
				return
			case *ssa.If:
				// branch on e (or carrier) nil-ness: follow only the non-nil side
				cond, pol := unNot(x.Cond, true)
				if tv, nn, ok := nilTest(atom{cond, pol}); ok && isCarrier(car, tv) {
					// nn: on the TRUE edge value is non-nil
					idx := 0
					if !nn {
						idx = 1
					}
					s := st.b.Succs[idx]
					explore(state{s, 0, enterBlock(car, st.b, s), append(st.trail, fmt.Sprintf("b%d", s.Index))})
					return
				}
				// sentinel comparison: err == io.EOF etc.
				if b, ok := cond.(*ssa.BinOp); ok && (b.Op == token.EQL || b.Op == token.NEQ) {
					var other ssa.Value
					if isCarrier(car, b.X) {
						other = b.Y
					} else if isCarrier(car, b.Y) {
						other = b.X
					}
					if other != nil {
						if g := globalName(other); g != "" && (cfg.swallowSentinels[g] || cfg.swallowSentinels[stableName(topOf(st.b.Parent()))+" "+g]) {
							// equal side: swallowed by reviewed exception; follow only the unequal side
							eqIdx := 0
							if (b.Op == token.NEQ) == pol {
								eqIdx = 1
							}
							s := st.b.Succs[1-eqIdx]
							explore(state{s, 0, enterBlock(car, st.b, s), append(st.trail, fmt.Sprintf("b%d", s.Index))})
							return
						}
					}
				}
				// comma-ok type assertion of the carrier to a reviewed type
				if ex, ok := cond.(*ssa.Extract); ok && ex.Index == 1 {
					if ta, ok := ex.Tuple.(*ssa.TypeAssert); ok && isCarrier(car, ta.X) && cfg.swallowTypes[typeStr(ta.AssertedType)] {
						idx := 1
						if !pol {
							idx = 0
						}
						s := st.b.Succs[idx]
						explore(state{s, 0, enterBlock(car, st.b, s), append(st.trail, fmt.Sprintf("b%d", s.Index))})
						return
					}
				}
				// range loop over consumers: if every path through the body
				// delivers the error (sink) before the next iteration, the loop
				// as a whole delivers it to every element; zero elements means
				// there is nobody to tell.
				if isRangeHeader(st.b) {
					body := st.b.Succs[0]
					if bodyAlwaysSinks(P, body, st.b, enterBlock(car, st.b, body), cfg, isCarrier) {
						return
					}
				}
				// predicate call on carrier, e.g. common.Retriable(err)
				if call, ok := cond.(*ssa.Call); ok && cfg.swallowPreds[calleeName(call)] {
					for _, a := range call.Call.Args {
						if isCarrier(car, a) {
							idx := 1
							if !pol {
								idx = 0
							}
							s := st.b.Succs[idx]
							explore(state{s, 0, enterBlock(car, st.b, s), append(st.trail, fmt.Sprintf("b%d", s.Index))})
							return
						}
					}
				}
			}
		}
		if len(st.b.Succs) == 0 {
			return
		}
		for _, s := range st.b.Succs {
			explore(state{s, 0, enterBlock(car, st.b, s), append(append([]string{}, st.trail...), fmt.Sprintf("b%d", s.Index))})
		}
	}
	explore(state{startBlock, startIdx, start, []string{fmt.Sprintf("%s b%d", short(fn.String()), startBlock.Index)}})
	if fail != nil {
		return *fail
	}
	return efResult{ok: true}
}

// enterBlock updates the carrier set for phis at the head of 'to' when entered
// from 'from'.
func enterBlock(car carrierSet, from, to *ssa.BasicBlock) carrierSet {
	pi := -1
	for i, p := range to.Preds {
		if p == from {
			pi = i
		}
	}
	var out carrierSet
	for _, in := range to.Instrs {
		phi, ok := in.(*ssa.Phi)
		if !ok {
			break
		}
		if pi < 0 {
			continue
		}
		inc := strip(phi.Edges[pi])
		if car[inc] || isNonNilConstErr(phi.Edges[pi]) {
			if !car[phi] {
				if out == nil {
					out = car.clone()
				}
				out[phi] = true
			}
		} else if car[phi] {
			if out == nil {
				out = car.clone()
			}
			delete(out, phi)
		}
	}
	if out == nil {
		return car
	}
	return out
}

func globalName(v ssa.Value) string {
	v = strip(v)
	if u, ok := v.(*ssa.UnOp); ok && u.Op == token.MUL {
		if g, ok := u.X.(*ssa.Global); ok {
			return short(g.Pkg.Pkg.Path() + "." + g.Name())
		}
	}
	return ""
}

// dynName gives the source-level name of a dynamically called function value
// (parameter, local variable cell, free variable or struct field).
func dynName(v ssa.Value) string {
	v = strip(v)
	switch x := v.(type) {
	case *ssa.Parameter:
		return x.Name()
	case *ssa.FreeVar:
		return x.Name()
	case *ssa.UnOp:
		if x.Op == token.MUL {
			switch a := x.X.(type) {
			case *ssa.Alloc:
				return a.Comment
			case *ssa.FreeVar:
				return a.Name()
			case *ssa.FieldAddr:
				if f := fieldVar(a.X.Type(), a.Field); f != nil {
					return "field " + fieldKey(a.X.Type(), f)
				}
			}
		}
	case *ssa.MakeClosure:
		return x.Fn.Name()
	case *ssa.Function:
		return x.Name()
	}
	return ""
}

// provablyNonNilErr: v is an error that cannot be nil at block b.
func provablyNonNilErr(v ssa.Value, b *ssa.BasicBlock) bool {
	return provablyNonNilErrRec(v, b, map[ssa.Value]bool{})
}

func provablyNonNilErrRec(v ssa.Value, b *ssa.BasicBlock, seen map[ssa.Value]bool) bool {
	if seen[v] {
		return false
	}
	seen[v] = true
	if _, ok := v.(*ssa.MakeInterface); ok {
		return true // a concrete error value boxed here
	}
	v = strip(v)
	if c, ok := v.(*ssa.Call); ok && nonNilErrCallees[calleeName(c)] {
		return true
	}
	if c, ok := v.(*ssa.Call); ok {
		// a module function all of whose returns box a concrete value (e.g. common.MarkRetriable: &retriable{err})
		if f := c.Call.StaticCallee(); f != nil && inModule(f) && len(f.Blocks) > 0 && f.Signature.Results().Len() == 1 {
			all, n := true, 0
			for _, in := range instrs(f) {
				if r, isR := in.(*ssa.Return); isR {
					n++
					if _, isMI := r.Results[0].(*ssa.MakeInterface); !isMI {
						all = false
					}
				}
			}
			if all && n > 0 {
				return true
			}
		}
	}
	if g := globalName(v); g != "" {
		return true // package-level sentinel
	}
	if p, ok := v.(*ssa.Phi); ok {
		all := true
		for i, e := range p.Edges {
			if !provablyNonNilErrRec(e, p.Block().Preds[i], seen) {
				all = false
			}
		}
		if all {
			return true
		}
	}
	for _, g := range guardsOf(b) {
		if x, nn, ok := nilTest(g); ok && nn && sameValue(x, v) {
			return true
		}
	}
	return false
}

// isErrProducer: type-level test used to enumerate call sites.
func sigHasError(sig *types.Signature) bool {
	for i := 0; i < sig.Results().Len(); i++ {
		if isErrorType(sig.Results().At(i).Type()) {
			return true
		}
	}
	return false
}

func isRangeHeader(b *ssa.BasicBlock) bool {
	return b.Comment == "rangeindex.loop" || b.Comment == "rangeiter.loop"
}

// bodyAlwaysSinks: every path from 'body' back to 'header' passes a channel
// send / sink call of a carrier or a provably non-nil error; paths leaving the
// function are not allowed (conservative).
func bodyAlwaysSinks(P *Prog, body, header *ssa.BasicBlock, car carrierSet, cfg *errflowCfg, isCarrier func(carrierSet, ssa.Value) bool) bool {
	seen := map[*ssa.BasicBlock]bool{}
	var walk func(b *ssa.BasicBlock) bool
	walk = func(b *ssa.BasicBlock) bool {
		if b == header {
			return false // completed an iteration without a sink
		}
		if seen[b] {
			return true
		}
		seen[b] = true
		for _, in := range b.Instrs {
			switch x := in.(type) {
			case *ssa.Send:
				if isCarrier(car, x.X) || (isErrorType(x.X.Type()) && provablyNonNilErr(x.X, b)) {
					return true
				}
				// 'e := err; if own != nil { e = own }; ch <- e': every way the sent value was
				// chosen is the carrier or an error known to be non-nil where it was chosen
				if ph, isPhi := strip(x.X).(*ssa.Phi); isPhi && isErrorType(ph.Type()) {
					all := len(ph.Edges) > 0
					for i, e := range ph.Edges {
						if !(isCarrier(car, e) || provablyNonNilErr(e, ph.Block().Preds[i])) {
							all = false
						}
					}
					if all {
						return true
					}
				}
			case ssa.CallInstruction:
				if cfg.sinkCalls[calleeName(x)] {
					for _, a := range x.Common().Args {
						if isCarrier(car, a) {
							return true
						}
					}
				}
			case *ssa.Return:
				return false
			}
		}
		if len(b.Succs) == 0 {
			return false
		}
		for _, s := range b.Succs {
			if !walk(s) {
				return false
			}
		}
		return true
	}
	return walk(body)
}

// isNonNilConstErr: a package-level sentinel or a freshly constructed error.
func isNonNilConstErr(v ssa.Value) bool {
	if !isErrorType(v.Type()) {
		return false
	}
	if _, ok := v.(*ssa.MakeInterface); ok {
		return true
	}
	v = strip(v)
	if c, ok := v.(*ssa.Call); ok && nonNilErrCallees[calleeName(c)] {
		return true
	}
	return globalName(v) != ""
}

func topOf(f *ssa.Function) *ssa.Function {
	for f.Parent() != nil {
		f = f.Parent()
	}
	return f
}
