package main

import (
	"go/token"
	"go/types"
	"sort"
	"strings"

	"golang.org/x/tools/go/ssa"
)

// C19 — data-disclosing endpoints refuse callers without valid credentials.

var c19OpenRPC = map[string]string{
	"Insert": "ingest is deliberately open ('No need to authorize, anyone can insert') and discloses neither stored data nor query traffic",
}

func ruleC19a(c *Ctx) {
	const rule = "C19.a"
	c.describe(rule, "dom: in every rpc.Server method of rpcserver.server (except the reviewed open ones) the authorize call's nil outcome dominates every use of the DB, every stream Send/Recv and every closure/goroutine creation, and its non-nil outcome is returned; authorize itself returns nil only when no password is configured or a presented password equals it")
	iface := c.P.Named("z/rpc", "Server")
	if iface == nil {
		c.undecided(rule, "anchor z/rpc.Server", token.NoPos, "interface rpc.Server not found")
		return
	}
	it, _ := iface.Underlying().(*types.Interface)
	if it == nil {
		c.undecided(rule, "anchor z/rpc.Server", token.NoPos, "rpc.Server is not an interface")
		return
	}
	n := 0
	for i := 0; i < it.NumMethods(); i++ {
		name := it.Method(i).Name()
		fn := c.P.Func("(*z/rpc/server.server)." + name)
		if fn == nil {
			c.undecided(rule, "(*z/rpc/server.server)."+name, token.NoPos, "server does not implement rpc.Server."+name+" as a resolvable method")
			continue
		}
		c.touch(fn)
		inst := "(*z/rpc/server.server)." + name
		if why, open := c19OpenRPC[name]; open {
			// an open method must not disclose: it may not call DB.Query/Follow/RegisterQueryHandler
			leak := ""
			for _, f := range withAnon(fn) {
				for _, call := range calls(f) {
					cn := calleeName(call)
					if strings.HasPrefix(cn, "invoke (z/rpc/server.DB).") && cn != "invoke (z/rpc/server.DB).InsertRaw" {
						leak = cn
					}
				}
			}
			c.check(rule, inst+" (open)", fn.Pos(), leak == "", "reviewed open method: "+why+"; it only calls DB.InsertRaw", "open (unauthenticated) method calls "+leak)
			continue
		}
		n++
		sites := callsTo(fn, "(*z/rpc/server.server).authorize")
		if len(sites) == 0 {
			c.bad(rule, inst, fn.Pos(), "no call to s.authorize(stream): the method serves callers that did not present the configured password")
			continue
		}
		auth, _ := sites[0].(*ssa.Call)
		if auth == nil {
			c.bad(rule, inst, sites[0].Pos(), "authorize is called via go/defer: its result cannot gate the method")
			continue
		}
		if r := errflowE2(c.P, auth, &errflowCfg{}); !r.ok {
			c.bad(rule, inst, auth.Pos(), "the non-nil result of authorize is not returned on every path: "+r.reason, r.path...)
			continue
		}
		var bad []string
		nSens := 0
		for _, in := range instrs(fn) {
			sens := ""
			switch x := in.(type) {
			case *ssa.MakeClosure:
				sens = "closure creation"
			case *ssa.Go:
				sens = "go statement"
			case ssa.CallInstruction:
				if x == ssa.CallInstruction(auth) {
					continue
				}
				cn := calleeName(x)
				if strings.HasPrefix(cn, "invoke (z/rpc/server.DB).") {
					sens = cn
				}
				if strings.HasPrefix(cn, "invoke (google.golang.org/grpc.ServerStream).") && !strings.HasSuffix(cn, ".Context") {
					sens = cn
				}
			}
			if sens == "" {
				continue
			}
			nSens++
			guarded := false
			for _, g := range guardsOf(in.Block()) {
				if m, isNil := atomNilOf(g, func(v ssa.Value) bool { return v == ssa.Value(auth) }); m && isNil {
					guarded = true
				}
			}
			if !guarded {
				bad = append(bad, sens+" at "+c.P.Pos(in.Pos()))
			}
		}
		if len(bad) > 0 {
			c.bad(rule, inst, auth.Pos(), "sensitive operations are reachable without authorize having returned nil", bad...)
		} else if nSens == 0 {
			c.undecided(rule, inst, fn.Pos(), "method contains no DB/stream operation: nothing to guard (rule table out of date?)")
		} else {
			c.ok(rule, inst, auth.Pos(), "authorize()==nil dominates all DB/stream/closure operations and its error is returned")
		}
	}
	c.floor(rule, "authorized rpc.Server methods", n, 3)

	// authorize itself
	az := c.need(rule, "(*z/rpc/server.server).authorize")
	if az == nil {
		return
	}
	nilRets := 0
	for _, b := range az.Blocks {
		if len(b.Instrs) == 0 {
			continue
		}
		ret, ok := b.Instrs[len(b.Instrs)-1].(*ssa.Return)
		if !ok || len(ret.Results) != 1 {
			continue
		}
		if !isNilConst(ret.Results[0]) {
			if !provablyNonNilErr(ret.Results[0], b) {
				c.bad(rule, "authorize: non-constant return", ret.Pos(), "authorize returns an error value that is not provably non-nil")
			}
			continue
		}
		nilRets++
		allOK := true
		np, complete := pathsTo(az.Blocks[0], b, func(p pathAtoms) bool {
			ok := p.has(func(a atom) bool {
				m, eq := atomFieldEmpty(a, "z/rpc/server.server.password")
				return m && eq
			}) || p.has(func(a atom) bool {
				bo, ok := a.v.(*ssa.BinOp)
				if !ok || (bo.Op != token.EQL && bo.Op != token.NEQ) {
					return false
				}
				if !isFieldLoad(bo.X, "z/rpc/server.server.password") && !isFieldLoad(bo.Y, "z/rpc/server.server.password") {
					return false
				}
				if _, isC := constString(bo.X); isC {
					return false
				}
				if _, isC := constString(bo.Y); isC {
					return false
				}
				eq := bo.Op == token.EQL
				if !a.pos {
					eq = !eq
				}
				return eq
			})
			if !ok {
				allOK = false
			}
			return ok
		})
		c.check(rule, "authorize: return nil", ret.Pos(), allOK && complete && np > 0, "every path to this 'return nil' passes password==\"\" or presented==s.password", "a path reaches 'return nil' (authorized) without the password being unconfigured or a presented password comparing equal")
	}
	c.floor(rule, "'return nil' exits of authorize", nilRets, 2)
}

// ---- web ----

func ruleC19b(c *Ctx) {
	const rule = "C19.b"
	c.describe(rule, "dom + static call graph: every call that serves cached/query data or enqueues a query (handler.query, cache.getByPermalink/getOrBegin/begin, respondWithCacheEntry/respondSuccess/respondError, send on handler.queries) reachable from a route registered in web.Configure is dominated by the true outcome of handler.authenticate in its own function or in every caller")
	conf := c.need(rule, "z/web.Configure")
	if conf == nil {
		return
	}
	routes := map[*ssa.Function]bool{}
	for _, call := range calls(conf) {
		cn := calleeName(call)
		if cn != "(*github.com/gorilla/mux.Route).HandlerFunc" && cn != "(*github.com/gorilla/mux.Router).HandleFunc" {
			continue
		}
		for _, a := range call.Common().Args {
			if mc, ok := a.(*ssa.MakeClosure); ok {
				name := short(mc.Fn.String())
				name = strings.TrimSuffix(name, "$bound")
				if f := c.P.Func(name); f != nil {
					routes[f] = true
				}
			}
		}
	}
	c.floor(rule, "registered route handlers", len(routes), 6)
	isSink := func(in ssa.Instruction) string {
		switch x := in.(type) {
		case ssa.CallInstruction:
			cn := calleeName(x)
			switch cn {
			case "(*z/web.handler).query", "(*z/web.cache).getByPermalink", "(*z/web.cache).getOrBegin", "(*z/web.cache).begin",
				"(*z/web.handler).respondWithCacheEntry", "(*z/web.handler).respondSuccess", "(*z/web.handler).respondError",
				"invoke (z/web.DB).Query", "(z/web.cacheEntry).data":
				return cn
			}
		case *ssa.Send:
			if isFieldLoad(x.Chan, "z/web.handler.queries") {
				return "send on handler.queries"
			}
		}
		return ""
	}
	// static callers within package web
	callers := map[*ssa.Function][]ssa.CallInstruction{}
	var webFns []*ssa.Function
	for _, fn := range c.P.ModFns {
		if pkgOf(fn) != "z/web" {
			continue
		}
		webFns = append(webFns, fn)
		for _, call := range calls(fn) {
			if sc := call.Common().StaticCallee(); sc != nil {
				callers[sc] = append(callers[sc], call)
			}
		}
	}
	// reachable from routes via static calls
	reachable := map[*ssa.Function]bool{}
	var stack []*ssa.Function
	for r := range routes {
		reachable[r] = true
		stack = append(stack, r)
	}
	for len(stack) > 0 {
		f := stack[len(stack)-1]
		stack = stack[:len(stack)-1]
		for _, call := range calls(f) {
			if sc := call.Common().StaticCallee(); sc != nil && pkgOf(sc) == "z/web" && !reachable[sc] {
				reachable[sc] = true
				stack = append(stack, sc)
			}
		}
		for _, a := range f.AnonFuncs {
			if !reachable[a] {
				reachable[a] = true
				stack = append(stack, a)
			}
		}
	}
	guardedHere := func(in ssa.Instruction) bool {
		for _, g := range guardsOf(in.Block()) {
			if call, ok := g.v.(*ssa.Call); ok && g.pos && isCall(call, "(*z/web.handler).authenticate") {
				return true
			}
		}
		return false
	}
	var protected func(in ssa.Instruction, depth int) (bool, string)
	protected = func(in ssa.Instruction, depth int) (bool, string) {
		if guardedHere(in) {
			return true, ""
		}
		fn := in.Parent()
		if routes[fn] {
			return false, "route handler " + stableName(fn) + " reaches it without authenticate()==true"
		}
		if fn.Parent() != nil || depth > 6 {
			return false, "in closure / too deep: " + stableName(fn)
		}
		cs := callers[fn]
		any := false
		for _, cs1 := range cs {
			if !reachable[cs1.Parent()] {
				continue
			}
			any = true
			if ok, why := protected(cs1, depth+1); !ok {
				return false, why + " -> " + stableName(fn)
			}
		}
		if !any {
			return true, "" // not reachable from any route through static calls
		}
		return true, ""
	}
	nS, nGuardFns := 0, map[*ssa.Function]bool{}
	var fns []*ssa.Function
	for f := range reachable {
		fns = append(fns, f)
	}
	sort.Slice(fns, func(i, j int) bool { return fns[i].Pos() < fns[j].Pos() })
	for _, f := range fns {
		c.touch(f)
		for _, in := range instrs(f) {
			s := isSink(in)
			if s == "" {
				continue
			}
			nS++
			ok, why := protected(in, 0)
			if guardedHere(in) {
				nGuardFns[f] = true
			}
			c.check(rule, stableName(f)+" -> "+s, in.Pos(), ok, "dominated by authenticate()==true here or in every route-reachable caller", "data-serving operation reachable from a registered route without authentication: "+why)
		}
	}
	c.floor(rule, "data-serving call sites reachable from routes", nS, 5)
	c.floor(rule, "functions guarding with authenticate", len(nGuardFns), 2)
	// the false outcome of authenticate must not serve: in each guarding fn the
	// false edge cannot reach a sink
	for f := range nGuardFns {
		for _, b := range f.Blocks {
			i := ifOf(b)
			if i == nil {
				continue
			}
			v, pol := unNot(i.Cond, true)
			call, ok := v.(*ssa.Call)
			if !ok || !isCall(call, "(*z/web.handler).authenticate") {
				continue
			}
			// pol: polarity of authenticate on the TRUE edge
			falseSucc := b.Succs[1]
			if !pol {
				falseSucc = b.Succs[0]
			}
			leak := ""
			for bb := range reach([]*ssa.BasicBlock{falseSucc}, nil, nil) {
				for _, in := range bb.Instrs {
					if s := isSink(in); s != "" {
						leak = s
					}
				}
			}
			c.check(rule, stableName(f)+": authenticate()==false serves nothing", i.Pos(), leak == "", "the refused branch returns without reaching a data-serving call", "the refused branch can still reach "+leak)
		}
	}
}

func ruleC19c(c *Ctx) {
	const rule = "C19.c"
	c.describe(rule, "pathstate (acyclic path enumeration with branch atoms): every 'return true' of handler.authenticate lies on a path with OAuth unconfigured, or cookie decode ok and (unexpired or re-verified org membership); the only non-constant return is header==Opts.Password under Password != \"\"; oauthCode issues the session cookie only after userInOrg returned (true, nil)")
	fn := c.need(rule, "(*z/web.handler).authenticate")
	if fn != nil {
		isDecodeErr := func(v ssa.Value) bool {
			return isResultOfCall(v, 0, "(*github.com/gorilla/securecookie.SecureCookie).Decode")
		}
		unexpired := func(a atom) bool {
			call, ok := a.v.(*ssa.Call)
			if !ok || len(call.Call.Args) != 2 {
				return false
			}
			cn := calleeName(call)
			recvExp := dependsOn(call.Call.Args[0], func(v ssa.Value) bool { return isFieldLoadOrAddr(v, "z/web.AuthData.Expiration") })
			argExp := dependsOn(call.Call.Args[1], func(v ssa.Value) bool { return isFieldLoadOrAddr(v, "z/web.AuthData.Expiration") })
			recvNow := isCallValue(call.Call.Args[0], "time.Now")
			argNow := isCallValue(call.Call.Args[1], "time.Now")
			switch cn {
			case "(time.Time).After":
				// exp.After(now) true  |  now.After(exp) false
				return (recvExp && argNow && a.pos) || (recvNow && argExp && !a.pos)
			case "(time.Time).Before":
				// now.Before(exp) true | exp.Before(now) false
				return (recvNow && argExp && a.pos) || (recvExp && argNow && !a.pos)
			}
			return false
		}
		type authFacts struct{ unconf, decodeOK, unexp, inOrg bool }
		factsOf := func(p pathAtoms, f authFacts) authFacts {
			if p.has(func(a atom) bool {
				m, eq := atomFieldEmpty(a, "z/web.Opts.OAuthClientID")
				m2, eq2 := atomFieldEmpty(a, "z/web.Opts.OAuthClientSecret")
				return (m && eq) || (m2 && eq2)
			}) {
				f.unconf = true
			}
			if p.has(func(a atom) bool { m, isNil := atomNilOf(a, isDecodeErr); return m && isNil }) {
				f.decodeOK = true
			}
			if p.has(unexpired) {
				f.unexp = true
			}
			if p.has(func(a atom) bool {
				return a.pos && isResultOfCall(a.v, 0, "(*z/web.handler).userInOrg")
			}) && p.has(func(a atom) bool {
				m, isNil := atomNilOf(a, func(v ssa.Value) bool { return isResultOfCall(v, 1, "(*z/web.handler).userInOrg") })
				return m && isNil
			}) {
				f.inOrg = true
			}
			return f
		}
		good := func(f authFacts) bool { return f.unconf || (f.decodeOK && (f.unexp || f.inOrg)) }
		nTrue := 0
		// trueExitsOK: every way g can return true establishes the condition (given
		// the facts the caller's path already has). A bool helper of the package that a
		// path relies on (helper() == true) is examined the same way, so the rule does
		// not depend on the decision being written inline.
		var trueExitsOK func(g *ssa.Function, outer authFacts, depth int, report func(ret *ssa.Return, ok bool, bad string)) bool
		trueExitsOK = func(g *ssa.Function, outer authFacts, depth int, report func(ret *ssa.Return, ok bool, bad string)) bool {
			c.touch(g)
			allOK := true
			for _, b := range g.Blocks {
				if len(b.Instrs) == 0 {
					continue
				}
				ret, ok := b.Instrs[len(b.Instrs)-1].(*ssa.Return)
				if !ok || len(ret.Results) != 1 {
					continue
				}
				cv, isC := constBool(ret.Results[0])
				if !isC {
					if depth > 0 && !good(outer) {
						allOK = false // a helper's computed result: nothing is known about it
						if report != nil {
							report(ret, false, "non-constant result of "+stableName(g))
						}
					}
					continue
				}
				if !cv {
					continue
				}
				nTrue++
				all := true
				var badPath []string
				np, complete := pathsTo(g.Blocks[0], b, func(p pathAtoms) bool {
					f := factsOf(p, outer)
					ok := good(f)
					if !ok && depth < 2 {
						for _, a := range p.atoms {
							call, isCall := a.v.(*ssa.Call)
							if !isCall || !a.pos {
								continue
							}
							h := call.Call.StaticCallee()
							if h == nil || !inModule(h) || len(h.Blocks) == 0 || pkgOf(h) != pkgOf(g) || typeStr(call.Type()) != "bool" {
								continue
							}
							if trueExitsOK(h, f, depth+1, nil) {
								ok = true
							}
						}
					}
					if !ok {
						all = false
						for _, bb := range p.blocks {
							badPath = append(badPath, "b"+itoa(bb.Index))
						}
					}
					return ok
				})
				okRet := all && complete && np > 0
				if !okRet {
					allOK = false
				}
				if report != nil {
					report(ret, okRet, strings.Join(badPath, ">"))
				}
			}
			return allOK
		}
		k := 0
		trueExitsOK(fn, authFacts{}, 0, func(ret *ssa.Return, ok bool, bad string) {
			k++
			c.check(rule, "authenticate: return true #"+itoa(k), ret.Pos(), ok,
				"every path to this 'return true' has OAuth unconfigured, or a successfully decoded cookie that is unexpired or whose org membership was re-verified",
				"a path reaches 'return true' without (unconfigured) or (cookie decoded and (unexpired or org membership re-verified)): "+bad)
		})
		nOther := 0
		for _, b := range fn.Blocks {
			if len(b.Instrs) == 0 {
				continue
			}
			ret, ok := b.Instrs[len(b.Instrs)-1].(*ssa.Return)
			if !ok || len(ret.Results) != 1 {
				continue
			}
			if _, isC := constBool(ret.Results[0]); isC {
				continue
			}
			nOther++
			// non-constant: must be header == Opts.Password with Password != "" on every path
			bo, isBin := ret.Results[0].(*ssa.BinOp)
			okShape := isBin && bo.Op == token.EQL && (isFieldLoad(bo.X, "z/web.Opts.Password") || isFieldLoad(bo.Y, "z/web.Opts.Password"))
			if okShape {
				other := bo.X
				if isFieldLoad(bo.X, "z/web.Opts.Password") {
					other = bo.Y
				}
				okShape = isCallValue(other, "(net/http.Header).Get")
			}
			all := okShape
			if okShape {
				pathsTo(fn.Blocks[0], b, func(p pathAtoms) bool {
					ok := p.has(func(a atom) bool { m, eq := atomFieldEmpty(a, "z/web.Opts.Password"); return m && !eq })
					if !ok {
						all = false
					}
					return ok
				})
			}
			c.check(rule, "authenticate: non-constant return", ret.Pos(), all, "the only non-constant result is requestHeader == Opts.Password, reached only with Opts.Password != \"\"", "a non-constant result that is not (request header == Opts.Password under Opts.Password != \"\")")
		}
		c.floor(rule, "'return true' exits of authenticate", nTrue, 3)
		c.floor(rule, "non-constant exits of authenticate", nOther, 1)
	}
	// cookie issuance: wherever package web sets a cookie that carries a session
	// (http.SetCookie), every way to get there — through the function itself and,
	// for an unexported helper, through each of its call sites — passes
	// userInOrg()==(true,nil)
	verified := func(p pathAtoms) bool {
		return p.has(func(a atom) bool { return a.pos && isResultOfCall(a.v, 0, "(*z/web.handler).userInOrg") }) &&
			p.has(func(a atom) bool {
				m, isNil := atomNilOf(a, func(v ssa.Value) bool { return isResultOfCall(v, 1, "(*z/web.handler).userInOrg") })
				return m && isNil
			})
	}
	var reachedVerified func(f *ssa.Function, b *ssa.BasicBlock, depth int) (bool, string)
	reachedVerified = func(f *ssa.Function, b *ssa.BasicBlock, depth int) (bool, string) {
		all, why := true, ""
		np, complete := pathsTo(f.Blocks[0], b, func(p pathAtoms) bool {
			if verified(p) {
				return true
			}
			// not established inside f: every caller has to establish it
			if depth < 2 && f.Parent() == nil && f.Object() != nil && !f.Object().Exported() {
				sites := callSitesOf(c.P, f)
				if len(sites) > 0 {
					okAll := true
					for _, s := range sites {
						if ok, w := reachedVerified(s.Parent(), s.Block(), depth+1); !ok {
							okAll = false
							why = w
						}
					}
					if okAll {
						return true
					}
					all = false
					return false
				}
			}
			all = false
			why = "in " + stableName(f)
			return false
		})
		return all && complete && np > 0, why
	}
	nSites := 0
	for _, fn := range c.P.ModFns {
		if pkgOf(fn) != "z/web" {
			continue
		}
		for _, s := range callsTo(fn, "net/http.SetCookie") {
			// the xsrf state cookie of requestAuthorization carries no session
			if stableName(topOf(fn)) == "(*z/web.handler).requestAuthorization" {
				continue
			}
			nSites++
			c.touch(fn)
			ok, why := reachedVerified(fn, s.Block(), 0)
			c.check(rule, "session cookie #"+itoa(nSites)+" is issued only for verified org members", s.Pos(), ok,
				"every path to http.SetCookie (through each call site of the helper that holds it) passes userInOrg()==(true,nil)",
				"http.SetCookie is reachable without userInOrg having returned (true, nil) ("+why+"): a signed session cookie with a fresh expiry is handed to a caller whose membership was not (or not yet) verified — replaying it is served without verification")
		}
	}
	c.floor(rule, "session cookie issuance sites in package web", nSites, 1)
}

func isFieldLoadOrAddr(v ssa.Value, key string) bool {
	if isFieldLoad(v, key) {
		return true
	}
	if fa, ok := v.(*ssa.FieldAddr); ok {
		f := fieldVar(fa.X.Type(), fa.Field)
		return f != nil && fieldKey(fa.X.Type(), f) == key
	}
	return false
}

func isCallValue(v ssa.Value, names ...string) bool {
	v = strip(v)
	// spilled receivers: load of an alloc storing the call result
	v = root(v)
	if c, ok := v.(*ssa.Call); ok {
		return isCall(c, names...)
	}
	return false
}

func itoa(i int) string {
	if i == 0 {
		return "0"
	}
	neg := i < 0
	if neg {
		i = -i
	}
	var b []byte
	for i > 0 {
		b = append([]byte{byte('0' + i%10)}, b...)
		i /= 10
	}
	if neg {
		b = append([]byte{'-'}, b...)
	}
	return string(b)
}

func init() {
	register(&PropSpec{
		ID:          "C19",
		Explanation: "Decides the structural clause 'every data-disclosing entry point is dominated by a successful credential check, and the credential checks accept only the credentials the property names': dominance of authorize()==nil over all DB/stream operations in each rpc.Server method; password lattice of authorize; dominance of authenticate()==true over every data-serving call reachable from the registered web routes; path lattice of authenticate (unconfigured | decoded cookie and (unexpired | org re-verified) | header==Password) and of the cookie issuance in oauthCode. Added clauses: bool helpers a 'return true' relies on are examined with the caller's facts; generated cookie keys are filled completely by crypto/rand. Further clause: every http.SetCookie of package web is reached, through each call site of a helper that holds it, only after verified org membership.",
		NotDecided:  []string{"cryptographic strength of securecookie / TLS", "GitHub's API answering truthfully", "timing side channels of string comparison", "endpoints that disclose no stored data (index, metrics, insert)"},
		Assumptions: []string{"grpc dispatches only to the rpc.Server methods through rpc.ServiceDesc", "gorilla/mux dispatches only to the registered handlers"},
		Rules:       []func(*Ctx){ruleC19a, ruleC19b, ruleC19c, ruleC19d},
	})
}

// ruleC19d: session cookies are only as good as their keys.
func ruleC19d(c *Ctx) {
	const rule = "C19.d"
	c.describe(rule, "flow: whenever package web generates a cookie key, crypto/rand.Read fills the WHOLE key — its argument is make([]byte, n) with no smaller length than capacity (or a full slice of an array); a zero-length buffer with capacity n leaves the key all zeroes and lets anyone mint a valid session cookie")
	n := 0
	for _, fn := range c.P.ModFns {
		if pkgOf(fn) != "z/web" {
			continue
		}
		for _, call := range callsTo(fn, "crypto/rand.Read") {
			n++
			c.touch(fn)
			arg := resolveVal(c.P, call.Common().Args[0], nil)
			ok, undec := false, false
			switch x := arg.(type) {
			case *ssa.MakeSlice:
				k, isK := constInt(x.Len)
				ok = x.Len == x.Cap || sameValue(x.Len, x.Cap)
				if kc, isKc := constInt(x.Cap); isK && isKc && k == kc {
					ok = true
				}
				if isK && k == 0 {
					ok = false
				}
				if !ok && !isK {
					if _, capK := constInt(x.Cap); !capK && x.Len != x.Cap {
						undec = true
					}
				}
			case *ssa.Slice:
				al, isArr := x.X.(*ssa.Alloc)
				ok = isArr && x.Low == nil && x.High == nil
				if isArr && x.Low == nil && x.High != nil {
					// make([]byte, n) with constant n is lowered to new [n]byte + slice [:n]
					if pt, isP := al.Type().Underlying().(*types.Pointer); isP {
						if at, isA := pt.Elem().Underlying().(*types.Array); isA {
							if k, isK := constInt(x.High); isK && k == at.Len() && k > 0 {
								ok = true
							}
						}
					}
				}
				if !ok {
					undec = !isArr
				}
			default:
				undec = true
			}
			top := topOf(fn)
			inst := stableName(top) + ": random key #" + itoa(perTopCount(c, rule, top)) + " is filled completely"
			if undec {
				c.undecided(rule, inst, call.Pos(), "the buffer handed to crypto/rand.Read is not a recognisable make([]byte, n) / full array slice")
				continue
			}
			c.check(rule, inst, call.Pos(), ok, "rand.Read over make([]byte, n) (len == cap)", "crypto/rand.Read is given a buffer shorter than the key (e.g. make([]byte, 0, n)): nothing is read, the cookie keys stay all-zero and anyone can forge a session cookie that authenticate() accepts")
		}
	}
	c.floor(rule, "crypto/rand.Read calls in package web", n, 1)
}
