package main

import (
	"fmt"
	"go/token"
	"go/types"
	"os"
	"sort"
	"strings"

	"golang.org/x/tools/go/callgraph"
	"golang.org/x/tools/go/callgraph/cha"
	"golang.org/x/tools/go/callgraph/vta"
	"golang.org/x/tools/go/packages"
	"golang.org/x/tools/go/ssa"
	"golang.org/x/tools/go/ssa/ssautil"
)

const modPath = "github.com/getlantern/zenodb"

// Prog is the resolved program: type-checked packages, SSA and (lazily) the
// call graph. It is rebuilt from the working tree on every run.
type Prog struct {
	Repo    string
	Fset    *token.FileSet
	Pkgs    []*packages.Package // module packages only (roots)
	SSA     *ssa.Program
	ByPath  map[string]*ssa.Package
	TPkg    map[string]*packages.Package
	funcs   map[string]*ssa.Function // normalised name -> function
	AllFns  map[*ssa.Function]bool
	ModFns  []*ssa.Function // functions (incl. anonymous) of the module, sorted
	cg      *callgraph.Graph
	cgMode  string
	NumPkgs int
}

// short replaces the module path by "z" so that rule tables stay readable:
// "(*z.fileStore).iterate", "z/sql.Parse".
func short(s string) string {
	s = strings.ReplaceAll(s, modPath, "z")
	if len(aliasTypes) > 0 || len(aliasFuncs) > 0 {
		s = applyAliases(s)
	}
	return s
}

func load(repo string, cgMode string, overlay map[string][]byte) (*Prog, error) {
	os.Unsetenv("GOWORK")
	os.Setenv("GOFLAGS", "-mod=mod")
	os.Setenv("GOPROXY", "off")
	os.Setenv("GOSUMDB", "off")
	if os.Getenv("GOTOOLCHAIN") == "" {
		os.Setenv("GOTOOLCHAIN", "local")
	}
	cfg := &packages.Config{
		Mode:    packages.LoadAllSyntax,
		Dir:     repo,
		Overlay: overlay,
		Env:     os.Environ(),
	}
	pkgs, err := packages.Load(cfg, "./...")
	if err != nil {
		return nil, fmt.Errorf("packages.Load: %v", err)
	}
	var errs []string
	packages.Visit(pkgs, nil, func(p *packages.Package) {
		if !strings.HasPrefix(p.PkgPath, modPath) {
			return
		}
		for _, e := range p.Errors {
			errs = append(errs, e.Error())
		}
	})
	if len(errs) > 0 {
		return nil, fmt.Errorf("type/parse errors in module packages: %s", strings.Join(errs, "; "))
	}
	if len(pkgs) < 19 {
		return nil, fmt.Errorf("only %d packages loaded, expected >= 19", len(pkgs))
	}
	prog, _ := ssautil.AllPackages(pkgs, ssa.InstantiateGenerics)
	prog.Build()
	P := &Prog{Repo: repo, SSA: prog, Pkgs: pkgs, ByPath: map[string]*ssa.Package{}, TPkg: map[string]*packages.Package{},
		funcs: map[string]*ssa.Function{}, cgMode: cgMode, NumPkgs: len(pkgs)}
	if len(pkgs) > 0 {
		P.Fset = pkgs[0].Fset
	}
	packages.Visit(pkgs, nil, func(p *packages.Package) { P.TPkg[p.PkgPath] = p })
	for _, sp := range prog.AllPackages() {
		P.ByPath[sp.Pkg.Path()] = sp
	}
	P.AllFns = ssautil.AllFunctions(prog)
	computeAliases(prog, P.AllFns, verifDirFlag)
	for fn := range P.AllFns {
		if fn.Pkg == nil && fn.Parent() == nil {
			// wrappers/thunks/instantiations
			if fn.Synthetic != "" {
				continue
			}
		}
		name := short(fn.String())
		if _, dup := P.funcs[name]; !dup {
			P.funcs[name] = fn
		}
		if inModule(fn) && fn.Synthetic == "" {
			P.ModFns = append(P.ModFns, fn)
		}
	}
	sort.Slice(P.ModFns, func(i, j int) bool {
		a, b := P.ModFns[i], P.ModFns[j]
		if a.Pos() != b.Pos() {
			return a.Pos() < b.Pos()
		}
		return a.String() < b.String()
	})
	return P, nil
}

func inModule(fn *ssa.Function) bool {
	for fn.Parent() != nil {
		fn = fn.Parent()
	}
	if fn.Pkg != nil {
		return strings.HasPrefix(fn.Pkg.Pkg.Path(), modPath)
	}
	if o := fn.Object(); o != nil && o.Pkg() != nil {
		return strings.HasPrefix(o.Pkg().Path(), modPath)
	}
	return false
}

// CG returns the call graph (VTA seeded with CHA by default, or CHA only).
func (P *Prog) CG() *callgraph.Graph {
	if P.cg == nil {
		c := cha.CallGraph(P.SSA)
		if P.cgMode == "cha" {
			P.cg = c
		} else {
			P.cg = vta.CallGraph(P.AllFns, c)
		}
	}
	return P.cg
}

// Func resolves a function by its normalised SSA name, e.g.
// "(*z.fileStore).iterate", "z/sql.Parse", "z/planner.planLocal$1".
func (P *Prog) Func(name string) *ssa.Function {
	return P.funcs[name]
}

// Pos renders a position relative to the repo root.
func (P *Prog) Pos(p token.Pos) string {
	if !p.IsValid() {
		return "-"
	}
	pp := P.Fset.Position(p)
	f := strings.TrimPrefix(pp.Filename, P.Repo+"/")
	return fmt.Sprintf("%s:%d", f, pp.Line)
}

// Named looks up a named type "z/core.Field".
func (P *Prog) Named(pkgShort, name string) *types.Named {
	path := strings.Replace(pkgShort, "z", modPath, 1)
	sp := P.ByPath[path]
	if sp == nil {
		return nil
	}
	o := sp.Pkg.Scope().Lookup(name)
	if o == nil {
		return nil
	}
	n, _ := o.Type().(*types.Named)
	return n
}

// ExtNamed looks up a named type in any loaded package by full path.
func (P *Prog) ExtNamed(path, name string) *types.Named {
	sp := P.ByPath[path]
	if sp == nil {
		return nil
	}
	o := sp.Pkg.Scope().Lookup(name)
	if o == nil {
		return nil
	}
	n, _ := o.Type().(*types.Named)
	return n
}
