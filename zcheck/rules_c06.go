package main

import (
	"go/token"

	"golang.org/x/tools/go/ssa"
)

// C06 — coarser grouping re-aggregates without loss/overlap.

var outIn = &rolePair{
	name:     "output and input (resolution / expressions)",
	roleA:    "out",
	roleB:    "in",
	fieldsA:  setOf("outExprs", "outResolution"),
	fieldsB:  setOf("inExprs", "inResolution"),
	paramsA:  setOf("outExprs", "outResolution", "resolution", "ex"),
	paramsB:  setOf("inExprs", "inResolution", "otherResolution", "otherEx", "otherRes"),
	methodsA: map[string]bool{},
	methodsB: map[string]bool{},
	preserve: map[string]int{},
}

func ruleC06a(c *Ctx, rule string) {
	c.describe(rule, "dom: the preconditions SubMerge relies on are validated before a group-by is planned — resolutionFor returns an error when the query resolution is finer than, or not a multiple of, the source resolution, and when the stride is not a multiple of it; planLocal calls addGroupBy only after resolutionFor's error was tested")
	rf := c.need(rule, "z/planner.resolutionFor")
	if rf != nil {
		nRem, nLss := 0, 0
		for _, ci := range findIfs(rf, func(v ssa.Value) bool {
			b, ok := v.(*ssa.BinOp)
			if !ok {
				return false
			}
			if b.Op == token.NEQ || b.Op == token.EQL {
				if r, isR := b.X.(*ssa.BinOp); isR && r.Op == token.REM && isCallValue(r.Y, "invoke (z/core.RowSource).GetResolution") {
					if k, isK := constInt(b.Y); isK && k == 0 {
						return true
					}
				}
			}
			if b.Op == token.LSS && isCallValue(b.Y, "invoke (z/core.RowSource).GetResolution") {
				return true
			}
			return false
		}) {
			b := ci.v.(*ssa.BinOp)
			failing := true
			if b.Op == token.EQL {
				failing = false
			}
			r := errflowFromEdge(c.P, ci.i.Block(), ci.succFor(failing), &errflowCfg{})
			what := "non-multiple"
			if b.Op == token.LSS {
				what = "finer-than-source"
				nLss++
			} else {
				nRem++
			}
			c.check(rule, "resolutionFor: "+what+" resolution/stride is an error", ci.i.Pos(), r.ok, "the failing outcome returns a non-nil error on every path", "a "+what+" resolution/stride does not lead to an error: SubMerge's bucket arithmetic (scale := resolution/otherResolution) silently loses or overlaps periods")
		}
		c.floor(rule, "multiple-of-source tests in resolutionFor", nRem, 2)
		c.floor(rule, "finer-than-source tests in resolutionFor", nLss, 1)
	}
	if pl := c.need(rule, "z/planner.planLocal"); pl != nil {
		for _, call := range callsTo(pl, "z/planner.resolutionFor") {
			cv := call.(*ssa.Call)
			e, _ := errValueOf(cv)
			ok := e != nil
			if ok {
				ok = errflowE2(c.P, e, &errflowCfg{}).ok
			}
			for _, g := range callsTo(pl, "z/planner.addGroupBy") {
				guarded := false
				for _, a := range guardsOf(g.Block()) {
					if m, isNil := atomNilOf(a, func(v ssa.Value) bool { return v == e }); m && isNil {
						guarded = true
					}
				}
				ok = ok && guarded
			}
			c.check(rule, "planLocal: group-by only after the resolution was validated", call.Pos(), ok, "resolutionFor's error is returned and addGroupBy is dominated by err == nil", "addGroupBy can be reached although resolutionFor reported an invalid resolution/stride")
		}
	}
}

func ruleC06b(c *Ctx, rule string) {
	c.describe(rule, "flow (role colouring, pair out/in over package bytetree, plus provenance at the construction site): bytetree.New receives (out exprs, in exprs, out resolution, in resolution) as (group's fields, source's fields, group's resolution, source's resolution); the Tree's out*/in* fields are written from the equally named parameters and reach Sequence.SubMerge as (resolution, otherResolution, ex, otherEx) in that order")
	checkRoles(c, rule, outIn, fnsOfPkgs(c, "z/bytetree"), 6)
	gi := c.need(rule, "(*z/core.group).Iterate")
	if gi == nil {
		return
	}
	var news []ssa.CallInstruction
	for _, f := range withAnon(gi) {
		news = append(news, callsTo(f, "z/bytetree.New")...)
	}
	c.floor(rule, "bytetree.New call in group.Iterate", len(news), 1)
	for _, call := range news {
		a := call.Common().Args
		if len(a) < 4 {
			continue
		}
		// resolutions
		okOutRes := isCallValue(a[2], "(*z/core.group).GetResolution")
		okInRes := false
		if cv, ok := root(a[3]).(*ssa.Call); ok && cv.Call.IsInvoke() && cv.Call.Method.Name() == "GetResolution" {
			okInRes = isFieldLoad(cv.Call.Value, "z/core.rowTransform.source")
		}
		c.check(rule, "group.Iterate: tree out resolution is the group's", call.Pos(), okOutRes, "g.GetResolution()", "the tree's output resolution is not the group's own resolution")
		c.check(rule, "group.Iterate: tree in resolution is the source's", call.Pos(), okInRes, "g.source.GetResolution()", "the tree's input resolution is not the source's resolution: periods are scaled by the wrong factor")
		// exprs: receiver of Exprs() for arg0 derives from FieldSource.Get result, arg1 from the onFields callback parameter
		exprRecv := func(v ssa.Value) ssa.Value {
			if cv, ok := root(v).(*ssa.Call); ok && isCall(cv, "(z/core.Fields).Exprs") {
				return cv.Call.Args[0]
			}
			return nil
		}
		fromGet := func(v ssa.Value) bool {
			return v != nil && dependsOn(v, func(x ssa.Value) bool {
				return isResultOfCall(x, 0, "invoke (z/core.FieldSource).Get")
			})
		}
		fromParam := func(v ssa.Value) bool {
			return v != nil && dependsOn(v, func(x ssa.Value) bool {
				p, ok := x.(*ssa.Parameter)
				return ok && typeStr(p.Type()) == "z/core.Fields"
			}) && !fromGet(v)
		}
		c.check(rule, "group.Iterate: tree out exprs are the group's output fields", call.Pos(), fromGet(exprRecv(a[0])), "outFields = g.Fields.Get(inFields)", "the tree's output expressions are not the fields computed by the group's FieldSource")
		c.check(rule, "group.Iterate: tree in exprs are the source's fields", call.Pos(), fromParam(exprRecv(a[1])), "inFields as reported by the source", "the tree's input expressions are not the source's reported fields")
	}
}

func ruleC06c(c *Ctx, rule string) {
	c.describe(rule, "reg/dom: group keys are canonical — both call sites of bytemap.FromSortedKeysAndValues iterate a GroupBy list that is sorted by name: core.Group (the only constructor of core.group) sorts opts.By before building the group; sql.Query.GroupBy is assigned only in applyGroupBy from names passed through sort.Strings")
	n := 0
	for _, fn := range c.P.ModFns {
		if len(callsTo(fn, "github.com/getlantern/bytemap.FromSortedKeysAndValues")) > 0 {
			n++
			c.touch(fn)
		}
	}
	c.floor(rule, "FromSortedKeysAndValues call sites", n, 2)
	// (1) group constructed only in core.Group, after sort.Sort on By
	var ctors []string
	for _, fn := range c.P.ModFns {
		for _, in := range instrs(fn) {
			if al, ok := in.(*ssa.Alloc); ok && typeStr(al.Type()) == "*z/core.group" {
				ctors = append(ctors, stableName(fn))
			}
		}
	}
	c.check(rule, "core.group is constructed only by core.Group", token.NoPos, len(ctors) == 1 && ctors[0] == "z/core.Group", "single constructor", "core.group values are constructed in: "+joinS(ctors))
	if g := c.need(rule, "z/core.Group"); g != nil {
		sorts := callsTo(g, "sort.Sort")
		ok := false
		for _, s := range sorts {
			if dependsOn(s.Common().Args[0], func(v ssa.Value) bool { return isFieldValue(v, "By") || isFieldLoad(v, "z/core.GroupOpts.By") }) {
				for _, in := range instrs(g) {
					if al, isAl := in.(*ssa.Alloc); isAl && typeStr(al.Type()) == "*z/core.group" && instrDominates(s, al) {
						ok = true
					}
				}
			}
		}
		c.check(rule, "core.Group sorts the GroupBy list by name", g.Pos(), ok, "sort.Sort(sortedGroupBys(opts.By)) precedes construction", "core.Group no longer sorts opts.By: two queries (or leader and follower) can build different keys for the same group")
	}
	if lf := c.need(rule, "(z/core.sortedGroupBys).Less"); lf != nil {
		ok := false
		for _, in := range instrs(lf) {
			if b, isB := in.(*ssa.BinOp); isB && b.Op == token.LSS && isFieldLoadOrAddrName(b.X, "Name") && isFieldLoadOrAddrName(b.Y, "Name") {
				ok = true
			}
		}
		c.check(rule, "sortedGroupBys orders by Name ascending", lf.Pos(), ok, "gbs[i].Name < gbs[j].Name", "the GroupBy order is not ascending by name (FromSortedKeysAndValues requires sorted keys)")
	}
	// (2) sql.Query.GroupBy
	var writers []string
	for _, fn := range c.P.ModFns {
		if len(fieldStores(fn, "z/sql.Query.GroupBy")) > 0 {
			writers = append(writers, stableName(fn))
		}
	}
	okW := true
	for _, w := range writers {
		if w != "(*z/sql.Query).applyGroupBy" && w != "(*z.DB).queryAndFields" {
			okW = false
		}
	}
	c.check(rule, "sql.Query.GroupBy is assigned only in applyGroupBy (and copied for views)", token.NoPos, okW && len(writers) > 0, joinS(writers), "Query.GroupBy is assigned in: "+joinS(writers))
	if ag := c.need(rule, "(*z/sql.Query).applyGroupBy"); ag != nil {
		ok := false
		ss := callsTo(ag, "sort.Strings")
		for _, st := range fieldStores(ag, "z/sql.Query.GroupBy") {
			for _, s := range ss {
				if instrDominates(s, st) {
					ok = true
				}
			}
		}
		c.check(rule, "applyGroupBy sorts the group-by names", ag.Pos(), ok, "sort.Strings precedes the assignment of Query.GroupBy", "Query.GroupBy is assigned without the names having been sorted")
	}
}

func isFieldLoadOrAddrName(v ssa.Value, name string) bool {
	v = strip(v)
	if _, f, ok := fieldOf(v); ok && f != nil && f.Name() == name {
		return true
	}
	return false
}

func init() {
	register(&PropSpec{
		ID:          "C06",
		Explanation: "Decides the preconditions and wiring SubMerge relies on: (a) resolution ≥ source and resolution/stride multiples of the source resolution are validated (errors) before a group-by is planned; (b) same-typed arguments out/in (resolutions, expression lists) are never swapped between group.Iterate, bytetree.New, the Tree's fields and Sequence.SubMerge; (c) group keys are built from name-sorted GroupBy lists at both construction sites. Added clauses: purity; every needsGroupBy disjunct (also inside a private bool helper) forces the group-by; = C11.b and = C13.a for the cluster and error paths of re-aggregation. Further clauses: aggregate.Merge merges only set operands (= C05.d); the select clause's field lookup map is rebuilt on every resolution.",
		NotDecided:  []string{"the bucket arithmetic floor((po+untilOffset)/scale)", "anchoring at the moving 'now'", "values of re-computed ratios"},
		Assumptions: []string{"role names out*/in*, resolution/otherResolution, ex/otherEx are used consistently in bytetree and encoding"},
		Rules: []func(*Ctx){func(c *Ctx) { ruleC05d(c, "C06.h") }, func(c *Ctx) { ruleC06i(c, "C06.i") }, func(c *Ctx) { ruleC05i(c, "C06.j") }, func(c *Ctx) { ruleC06a(c, "C06.a") }, func(c *Ctx) { ruleC06b(c, "C06.b") }, func(c *Ctx) { ruleC06c(c, "C06.c") }, func(c *Ctx) { rulePurity(c, "C06.d") }, func(c *Ctx) { ruleC06e(c, "C06.e") }, func(c *Ctx) { ruleC11b(c, "C06.f") }, func(c *Ctx) {
			// a coarse row built from a partial scan is not the aggregate of "exactly the points whose key projects onto it"
			saved := c.ruleDesc
			ruleC13aAs(c, "C06.g")
			_ = saved
		}},
	})
}

// ruleC06e: planLocal adds the group-by whenever the query changes the
// grouping, resolution or window.
func ruleC06e(c *Ctx, rule string) {
	c.describe(rule, "dom: planLocal re-aggregates whenever the query differs from the table's native shape — each of asOfChanged, untilChanged, resolutionChanged, !GroupByAll, HasSpecificFields, HasHaving, Crosstab != nil, strideSlice > 0 forces addGroupBy before Flatten; (*node).doUpdate hands the source's column to SubMerge unmodified")
	pl := c.need(rule, "z/planner.planLocal")
	if pl == nil {
		return
	}
	gb := callsTo(pl, "z/planner.addGroupBy")
	ft := callsTo(pl, "z/core.Flatten")
	if len(gb) != 1 || len(ft) != 1 {
		c.undecided(rule, "planLocal group-by", pl.Pos(), "expected one addGroupBy and one Flatten call")
		return
	}
	forces := func(ci condIf, val bool) bool {
		s := ci.succFor(val)
		// every feasible path (phi-aware: 'a || b || …' lowers to a phi of
		// constants) from this edge to Flatten passes addGroupBy
		all := true
		_, complete := pathsToFrom(ci.i.Block(), s, ft[0].Block(), func(p pathAtoms) bool {
			pass := false
			for _, b := range p.blocks {
				if b == gb[0].Block() {
					pass = true
				}
			}
			if !pass {
				all = false
			}
			return all
		})
		return all && complete
	}
	type dis struct {
		name string
		pred func(v ssa.Value) bool
		val  bool
	}
	ds := []dis{
		{"asOfChanged", func(v ssa.Value) bool { return isResultOfCall(v, 1, "z/planner.asOfUntilFor") }, true},
		{"untilChanged", func(v ssa.Value) bool { return isResultOfCall(v, 3, "z/planner.asOfUntilFor") }, true},
		{"resolutionChanged", func(v ssa.Value) bool { return isResultOfCall(v, 2, "z/planner.resolutionFor") }, true},
		{"!GroupByAll", func(v ssa.Value) bool { return isFieldLoad(v, "z/sql.Query.GroupByAll") }, false},
		{"HasSpecificFields", func(v ssa.Value) bool { return isFieldLoad(v, "z/sql.Query.HasSpecificFields") }, true},
		{"HasHaving", func(v ssa.Value) bool { return isFieldLoad(v, "z/sql.Query.HasHaving") }, true},
		{"Crosstab != nil", func(v ssa.Value) bool {
			x, _, ok := nilTest(atom{v, true})
			return ok && isFieldLoad(x, "z/sql.Query.Crosstab")
		}, true},
		{"strideSlice > 0", func(v ssa.Value) bool {
			b, ok := v.(*ssa.BinOp)
			return ok && b.Op == token.GTR && isResultOfCall(b.X, 1, "z/planner.resolutionFor")
		}, true},
	}
	for _, d := range ds {
		found := false
		ok := true
		for _, ci := range findIfs(pl, d.pred) {
			// only tests that lie before the group-by
			if !reach([]*ssa.BasicBlock{ci.i.Block()}, nil, nil)[gb[0].Block()] {
				continue
			}
			found = true
			val := d.val
			if d.name == "Crosstab != nil" {
				_, nn, _ := nilTest(atom{ci.v, true})
				val = nn
			}
			if !forces(ci, val) {
				ok = false
			}
		}
		if !found {
			// last disjunct of 'a || b || … || z': no branch of its own, its value
			// is the phi's incoming value on the fall-through edge
			for _, in := range instrs(pl) {
				ph, isPhi := in.(*ssa.Phi)
				if !isPhi {
					continue
				}
				for _, e := range ph.Edges {
					v, pol := unNot(e, true)
					if d.pred(v) && pol == d.val {
						for _, ci := range findIfs(pl, func(x ssa.Value) bool { return x == ssa.Value(ph) }) {
							found = true
							if !forces(ci, true) {
								ok = false
							}
						}
					}
				}
			}
		}
		if !found {
			// the disjunct lives in a private bool helper of planLocal (needsGroupBy(query) …):
			// the helper must return true whenever the disjunct holds, and the helper's
			// true outcome must force the group-by in planLocal
			for _, h := range withHelpers(c.P, pl) {
				if h == pl || h.Parent() != nil || h.Signature.Results().Len() != 1 || typeStr(h.Signature.Results().At(0).Type()) != "bool" {
					continue
				}
				if !boolHelperTrueWhen(h, d.pred, d.val, d.name == "Crosstab != nil") {
					continue
				}
				c.touch(h)
				isCallH := func(x ssa.Value) bool {
					call, isC := x.(*ssa.Call)
					return isC && call.Call.StaticCallee() == h
				}
				for _, ci := range findIfs(pl, isCallH) {
					found = true
					if !forces(ci, true) {
						ok = false
					}
				}
				for _, in := range instrs(pl) {
					ph, isPhi := in.(*ssa.Phi)
					if !isPhi {
						continue
					}
					for _, e := range ph.Edges {
						if v, pol := unNot(e, true); isCallH(v) && pol {
							for _, ci := range findIfs(pl, func(x ssa.Value) bool { return x == ssa.Value(ph) }) {
								found = true
								if !forces(ci, true) {
									ok = false
								}
							}
						}
					}
				}
			}
		}
		c.check(rule, "planLocal: "+d.name+" forces the group-by", gb[0].Pos(), found && ok, "this outcome cannot reach Flatten without addGroupBy", "a query with "+d.name+" can be planned without the group-by stage: it silently returns rows in the table's native grouping/resolution/window")
	}
	if du := c.need(rule, "(*z/bytetree.node).doUpdate"); du != nil {
		var valsP *ssa.Parameter
		for _, p := range du.Params {
			if isSeqContainer(p.Type()) {
				valsP = p
			}
		}
		for _, call := range callsTo(du, "(z/encoding.Sequence).SubMerge") {
			a := call.Common().Args[1]
			ok := false
			if u, isU := strip(a).(*ssa.UnOp); isU {
				if ia, isI := u.X.(*ssa.IndexAddr); isI && valsP != nil && ia.X == ssa.Value(valsP) {
					ok = true
				}
			}
			c.check(rule, "doUpdate: SubMerge receives the source column unmodified", call.Pos(), ok, "other = vals[i]", "the column handed to SubMerge is not the source's vals[i] itself (pre-trimmed / transformed): SubMerge's own shift-aware truncation (asOf - shift) can no longer keep the periods it needs")
		}
	}
}

// boolHelperTrueWhen: the bool function h returns true on every path on which
// the condition matched by pred has the value val (it is tested as a branch
// whose val-edge reaches only 'return true', or it is itself — with that
// polarity — the returned value / an operand of the returned short-circuit phi).
func boolHelperTrueWhen(h *ssa.Function, pred func(ssa.Value) bool, val bool, nilForm bool) bool {
	retTrueOnly := func(from *ssa.BasicBlock, via *ssa.BasicBlock) bool {
		all := true
		n := 0
		for _, b := range h.Blocks {
			if len(b.Instrs) == 0 {
				continue
			}
			r, ok := b.Instrs[len(b.Instrs)-1].(*ssa.Return)
			if !ok {
				continue
			}
			pathsToFrom(via, from, b, func(p pathAtoms) bool {
				n++
				if cb, isC := constBool(p.resolve(r.Results[0])); !isC || !cb {
					all = false
				}
				return all
			})
		}
		return all && n > 0
	}
	found, ok := false, true
	for _, ci := range findIfs(h, pred) {
		found = true
		v := val
		if nilForm {
			_, nn, _ := nilTest(atom{ci.v, true})
			v = nn
		}
		if !retTrueOnly(ci.succFor(v), ci.i.Block()) {
			ok = false
		}
	}
	if found {
		return ok
	}
	// returned directly or through the short-circuit phi
	matches := func(e ssa.Value) bool {
		v, pol := unNot(e, true)
		if !pred(v) {
			return false
		}
		if nilForm {
			_, nn, _ := nilTest(atom{v, true})
			return nn == pol
		}
		return pol == val
	}
	for _, in := range instrs(h) {
		r, isR := in.(*ssa.Return)
		if !isR {
			continue
		}
		for _, leaf := range phiLeaves(r.Results[0]) {
			if matches(leaf) {
				return true
			}
		}
	}
	return false
}

// ruleC06i: a select clause is resolved afresh against the fields it is given.
func ruleC06i(c *Ctx, rule string) {
	c.describe(rule, "dom: (*fielded).init rebuilds the lookup map of known fields on every call (an unconditional fresh map) — a query's select clause is resolved twice, by the planner against the table's fields and by the group operator against its source's fields; a map kept from the first pass lets aliases shadow the source columns, so 'SELECT a / 2 AS a' is divided twice when re-aggregated")
	fn := c.need(rule, "(*z/sql.fielded).init")
	if fn == nil {
		return
	}
	ok := false
	for _, st := range fieldStores(fn, "z/sql.fielded.fieldsMap") {
		if _, isMM := st.Val.(*ssa.MakeMap); isMM && st.Block() == fn.Blocks[0] {
			ok = true
		}
		if _, isMM := st.Val.(*ssa.MakeMap); isMM && dominatesAllReturns(fn, st) {
			ok = true
		}
	}
	c.check(rule, "fielded.init starts from an empty map on every call", fn.Pos(), ok, "f.fieldsMap = make(…) unconditionally", "the field lookup map is not rebuilt on every resolution (kept when already present): names added while resolving the clause once are still there the second time and shadow the columns of the source")
}
