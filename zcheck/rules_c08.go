package main

import (
	"go/token"

	"golang.org/x/tools/go/ssa"
)

// C08 — WHERE, HAVING and IN-subquery filters keep exactly the matching rows.

func ruleC08a(c *Ctx, rule string) {
	c.describe(rule, "flow/dom: WHERE is applied below GROUP BY — in planLocal, on the query.Where != nil side every path to addGroupBy passes applySubQueryFilters, the group-by's source derives from the filter's result, and the filter's source never derives from the group-by")
	pl := c.need(rule, "z/planner.planLocal")
	if pl == nil {
		return
	}
	fl := callsTo(pl, "z/planner.applySubQueryFilters")
	gb := callsTo(pl, "z/planner.addGroupBy")
	ft := callsTo(pl, "z/core.Flatten")
	if len(fl) != 1 || len(gb) != 1 || len(ft) != 1 {
		c.undecided(rule, "planLocal operators", pl.Pos(), "expected one call each of applySubQueryFilters, addGroupBy, core.Flatten")
		return
	}
	flv := resultOf(fl[0].(*ssa.Call), 0)
	gbv := gb[0].(ssa.Value)
	dep := func(v ssa.Value, on ssa.Value) bool { return dependsOn(v, func(x ssa.Value) bool { return x == on }) }
	c.check(rule, "planLocal: group-by consumes the filtered source", gb[0].Pos(), flv != nil && dep(gb[0].Common().Args[0], flv), "addGroupBy's source is (a phi of) applySubQueryFilters' result", "addGroupBy does not take the WHERE-filtered source: rows failing WHERE are aggregated")
	c.check(rule, "planLocal: the filter sits below the group-by", fl[0].Pos(), !dep(fl[0].Common().Args[2], gbv), "applySubQueryFilters' source does not derive from addGroupBy", "WHERE is applied on top of the group-by: dimension predicates are evaluated on grouped keys (dims may be gone) instead of on the points")
	c.check(rule, "planLocal: Flatten consumes the (grouped) filtered source", ft[0].Pos(), flv != nil && dep(ft[0].Common().Args[0], flv), "core.Flatten's source derives from the filter", "the flattened source bypasses the WHERE filter")
	// guard: Where != nil  -> filter on every path
	tests := findIfs(pl, func(v ssa.Value) bool {
		x, _, ok := nilTest(atom{v, true})
		return ok && isFieldLoad(x, "z/sql.Query.Where")
	})
	if len(tests) == 0 {
		c.bad(rule, "planLocal: WHERE present implies filter", pl.Pos(), "no test of query.Where != nil found")
	}
	for _, ci := range tests {
		_, nn, _ := nilTest(atom{ci.v, true})
		s := ci.succFor(nn)
		avoid := blockSet{fl[0].Block(): true}
		ok := avoid[s] || !reach([]*ssa.BasicBlock{s}, avoid, nil)[ft[0].Block()]
		c.check(rule, "planLocal: WHERE present implies filter", ci.i.Pos(), ok, "from Where != nil every path to Flatten passes applySubQueryFilters", "a query with a WHERE clause can be planned without the filter")
	}
}

func ruleC08b(c *Ctx, rule string) {
	c.describe(rule, "sibling agreement: every planner function that flattens a grouped source and returns through addOrderLimitOffset (planLocal, planClusterNonPushdown) applies addHaving under query.HasHaving in between; addHaving keeps a row iff its last value == 1 and strips that value; havingFilter strips the _having field from the reported fields")
	for _, name := range []string{"z/planner.planLocal", "z/planner.planClusterNonPushdown"} {
		fn := c.need(rule, name)
		if fn == nil {
			continue
		}
		hv := callsTo(fn, "z/planner.addHaving")
		ft := callsTo(fn, "z/core.Flatten")
		ol := callsTo(fn, "z/planner.addOrderLimitOffset")
		if len(hv) != 1 || len(ft) != 1 || len(ol) != 1 {
			c.bad(rule, name+": HAVING applied between Flatten and ORDER/LIMIT", fn.Pos(), "expected one call each of core.Flatten, addHaving, addOrderLimitOffset (found "+itoa(len(ft))+"/"+itoa(len(hv))+"/"+itoa(len(ol))+")")
			continue
		}
		dep := func(v ssa.Value, on ssa.Value) bool { return dependsOn(v, func(x ssa.Value) bool { return x == on }) }
		ok := dep(hv[0].Common().Args[0], ft[0].(ssa.Value)) && dep(ol[0].Common().Args[0], hv[0].(ssa.Value))
		guard := false
		for _, g := range guardsOf(hv[0].Block()) {
			if g.pos && isFieldLoad(g.v, "z/sql.Query.HasHaving") {
				guard = true
			}
		}
		// from HasHaving==true, addOrderLimitOffset unreachable without addHaving
		must := false
		for _, ci := range findIfs(fn, func(v ssa.Value) bool { return isFieldLoad(v, "z/sql.Query.HasHaving") }) {
			s := ci.succFor(true)
			avoid := blockSet{hv[0].Block(): true}
			if ci.i.Block().Dominates(ol[0].Block()) && (avoid[s] || !reach([]*ssa.BasicBlock{s}, avoid, nil)[ol[0].Block()]) {
				must = true
			}
		}
		c.check(rule, name+": HAVING applied between Flatten and ORDER/LIMIT", hv[0].Pos(), ok && guard && must, "addHaving(Flatten(…)) under query.HasHaving feeds addOrderLimitOffset", "HAVING is not applied (or not in this position) although the query has one: rows failing HAVING are returned, or LIMIT is applied before HAVING")
	}
	// addHaving's filter
	ah := c.need(rule, "z/planner.addHaving")
	if ah != nil && len(ah.AnonFuncs) > 0 {
		f := ah.AnonFuncs[0]
		c.touch(f)
		// havingIdx = len(fields) - 1
		idxOK, keepOK, stripOK := false, false, false
		var idx ssa.Value
		for _, in := range instrs(f) {
			if b, ok := in.(*ssa.BinOp); ok && b.Op == token.SUB {
				if k, isK := constInt(b.Y); isK && k == 1 && isCallValue(b.X, "builtin len") {
					idx = b
					idxOK = true
				}
			}
		}
		isOne := func(v ssa.Value) bool {
			cst, ok := v.(*ssa.Const)
			return ok && cst.Value != nil && cst.Value.String() == "1"
		}
		for _, ci := range findIfs(f, func(v ssa.Value) bool {
			b, ok := v.(*ssa.BinOp)
			return ok && (b.Op == token.EQL || b.Op == token.NEQ) && (isOne(b.X) || isOne(b.Y))
		}) {
			b := ci.v.(*ssa.BinOp)
			x := b.X
			if isOne(b.X) {
				x = b.Y
			}
			eqSide := b.Op == token.EQL // the successor on which the value equals 1
			{
				// x is row.Values[havingIdx]
				if u, ok := x.(*ssa.UnOp); ok {
					if ia, ok := u.X.(*ssa.IndexAddr); ok && ia.Index == idx {
						// the ==1 side returns the row, the other nil
						retRow, retNil := false, false
						for bb := range reach([]*ssa.BasicBlock{ci.succFor(eqSide)}, nil, nil) {
							if r, ok := bb.Instrs[len(bb.Instrs)-1].(*ssa.Return); ok && !isNilConst(r.Results[0]) {
								retRow = true
							}
						}
						for bb := range reach([]*ssa.BasicBlock{ci.succFor(!eqSide)}, nil, nil) {
							if r, ok := bb.Instrs[len(bb.Instrs)-1].(*ssa.Return); ok {
								retNil = isNilConst(r.Results[0])
							}
						}
						keepOK = retRow && retNil
					}
				}
			}
		}
		for _, st := range fieldStores(f, "z/core.FlatRow.Values") {
			if sl, ok := st.Val.(*ssa.Slice); ok && sl.High == idx && sl.Low == nil {
				stripOK = true
			}
		}
		c.check(rule, "addHaving: the helper value is the last one", f.Pos(), idxOK, "havingIdx = len(fields) - 1", "the _having value is not read from the last position")
		c.check(rule, "addHaving: keep exactly rows whose _having value is 1", f.Pos(), keepOK, "Values[havingIdx] == 1 → row, else nil", "the keep/drop decision of HAVING is not 'last value == 1 keeps the row'")
		c.check(rule, "addHaving: the helper value is stripped", f.Pos(), stripOK, "row.Values = row.Values[:havingIdx]", "the _having helper value is exposed to the client (or other values are cut)")
	}
	hf := c.need(rule, "(*z/planner.havingFilter).Iterate")
	if hf != nil {
		ok := false
		for _, a := range withHelpers(c.P, hf) {
			for _, in := range instrs(a) {
				if b, isB := in.(*ssa.BinOp); isB && (b.Op == token.NEQ || b.Op == token.EQL) {
					if (isFieldLoadOrAddrName(b.X, "Name") || isFieldValue(b.X, "Name")) && isConstStr(b.Y, "_having") {
						ok = true
					}
				}
			}
		}
		c.check(rule, "havingFilter: the _having field is not reported", hf.Pos(), ok, "fields named core.HavingFieldName are removed from onFields", "the helper column _having is reported to the client")
	}
}

func isConstStr(v ssa.Value, s string) bool {
	k, ok := constString(v)
	return ok && k == s
}

func ruleC08c(c *Ctx, rule string) {
	c.describe(rule, "dom: in applySubQueryFilters' row filter the IN-subqueries are run (once, CAS-guarded) before query.Where is evaluated, and a row is kept only when the predicate result is non-nil and true (nil → drop)")
	fn := c.need(rule, "z/planner.applySubQueryFilters")
	if fn == nil || len(fn.AnonFuncs) == 0 {
		return
	}
	f := fn.AnonFuncs[0]
	c.touch(f)
	var eval *ssa.Call
	for _, call := range calls(f) {
		if cv, ok := call.(*ssa.Call); ok && calleeName(cv) == "invoke (github.com/getlantern/goexpr.Expr).Eval" && isFieldLoad(cv.Call.Value, "z/sql.Query.Where") {
			eval = cv
		}
	}
	if eval == nil {
		c.bad(rule, "row filter evaluates query.Where", f.Pos(), "no call query.Where.Eval(key) in the filter")
		return
	}
	cas := callsTo(f, "sync/atomic.CompareAndSwapInt32")
	okOrder := len(cas) == 1 && instrDominates(cas[0], eval)
	// the run call is under CAS true
	okRun := false
	for _, call := range calls(f) {
		if k, isP := resultProducer(call); isP && (k == "runSubQueries (result of z/planner.planSubQueries)" || k == "runSubQueries (parameter)") {
			for _, g := range guardsOf(call.Block()) {
				if cv, ok := g.v.(*ssa.Call); ok && g.pos && len(cas) == 1 && cv == cas[0].(*ssa.Call) {
					okRun = true
				}
			}
			if !instrDominatesOrSkips(call, eval) {
				okRun = false
			}
		}
	}
	c.check(rule, "sub-queries run before the predicate is evaluated", eval.Pos(), okOrder && okRun, "CompareAndSwap-guarded runSubQueries precedes Where.Eval", "query.Where can be evaluated before the IN-subqueries have produced their lists (or they run per row)")
	// keep branch
	keepOK := true
	nKeep := 0
	for _, b := range f.Blocks {
		r, ok := b.Instrs[len(b.Instrs)-1].(*ssa.Return)
		if !ok || len(r.Results) != 3 || isNilConst(r.Results[0]) {
			continue
		}
		nKeep++
		nonNil, isTrue := false, false
		for _, g := range guardsOf(b) {
			if x, nn, ok := nilTest(g); ok && nn && x == ssa.Value(eval) {
				nonNil = true
			}
			if ta, ok := g.v.(*ssa.TypeAssert); ok && g.pos && ta.X == ssa.Value(eval) && typeStr(ta.AssertedType) == "bool" {
				isTrue = true
			}
		}
		if !nonNil || !isTrue {
			keepOK = false
		}
	}
	c.check(rule, "a row is kept only if the predicate is non-nil and true", eval.Pos(), keepOK && nKeep > 0, "return key, vals only under result != nil && result.(bool)", "rows are kept although the WHERE predicate evaluated to nil/false (or the nil check is missing and a nil result panics)")
}

// instrDominatesOrSkips: a dominates b, or a is in a block that b's block
// post-follows through a join (a executes on one branch before control joins
// into b).
func instrDominatesOrSkips(a, b ssa.Instruction) bool {
	if instrDominates(a, b) {
		return true
	}
	return reach(a.Block().Succs, nil, nil)[b.Block()] && !reach(b.Block().Succs, nil, nil)[a.Block()]
}

func init() {
	register(&PropSpec{
		ID:          "C08",
		Explanation: "Decides operator order and pairing in the plan builders: WHERE filter below GROUP BY on every path with a WHERE; HAVING applied between Flatten and ORDER/LIMIT in both planners that group on this node, keeping exactly rows whose helper value is 1 and hiding the helper column; IN-subqueries run before the predicate and nil results drop the row. Added clauses: goroutines started per IN-subquery bind per-iteration values (go 1.12 loop variables); _having is the last field the group operator emits, also with CROSSTABT totals. Further clauses: registered comparisons are exactly their operators; rows handed to row callbacks are not reused buffers; the sub-query field source always resolves the wrapped source.",
		NotDecided:  []string{"predicate evaluation inside goexpr", "HAVING arithmetic", "equality with a differential run", "FROM (subquery) field mapping beyond Unflatten's wiring"},
		Assumptions: []string{"goexpr.Expr.Eval returns a bool or nil for boolean predicates"},
		Rules:       []func(*Ctx){func(c *Ctx) { ruleC08a(c, "C08.a") }, func(c *Ctx) { ruleC08b(c, "C08.b") }, func(c *Ctx) { ruleC08c(c, "C08.c") }, func(c *Ctx) { ruleC08d(c, "C08.d") }, func(c *Ctx) { ruleLoopCapture(c, "C08.e", "z/planner") }, func(c *Ctx) { ruleC08f(c, "C08.f") }, func(c *Ctx) { ruleC08g(c, "C08.g") }, func(c *Ctx) { ruleC08h(c, "C08.h") }, func(c *Ctx) { ruleC08i(c, "C08.i") }},
	})
}

// ruleC08d: exact keep/drop tests of the filter operators and the helper
// column conventions their consumers rely on.
func ruleC08d(c *Ctx, rule string) {
	c.describe(rule, "dom/pairing: rowFilter and flatRowFilter forward a row exactly when Include returned a non-nil key/row (an empty but non-nil key is a row); the sub-query field source emits _points first and _having after it (addHaving reads the flag from the last column); a selected alias is always registered for HAVING name resolution")
	for _, name := range []string{"(*z/core.rowFilter).Iterate", "(*z/core.flatRowFilter).Iterate"} {
		fn := c.need(rule, name)
		if fn == nil {
			continue
		}
		n := 0
		for _, a := range fn.AnonFuncs {
			for _, call := range calls(a) {
				if call.Common().StaticCallee() != nil || call.Common().IsInvoke() {
					continue
				}
				v := call.Common().Value
				if u, ok := v.(*ssa.UnOp); ok {
					v = u.X
				}
				fv, isFV := v.(*ssa.FreeVar)
				if !isFV || !isRowCallbackSig(call.Common().Signature()) || call.Common().Signature().Results().Len() != 2 {
					continue
				}
				_ = fv
				// the first argument (key / row) must be nil-tested exactly
				arg0 := call.Common().Args[0]
				exact := false
				for _, g := range guardsOf(call.Block()) {
					if x, nn, ok := nilTest(g); ok && nn && sameValue(x, arg0) {
						exact = true
					}
				}
				// and it is Include's result
				fromInclude := dependsOn(arg0, func(x ssa.Value) bool {
					ex, ok := x.(*ssa.Extract)
					if !ok || ex.Index != 0 {
						return false
					}
					cl, ok := ex.Tuple.(*ssa.Call)
					return ok && cl.Call.StaticCallee() == nil && (isFieldLoad(cl.Call.Value, "z/core.rowFilter.Include") || isFieldLoad(cl.Call.Value, "z/core.flatRowFilter.Include"))
				})
				if !fromInclude {
					continue
				}
				n++
				c.check(rule, name+": forward exactly the rows Include kept", call.Pos(), exact, "onRow is called iff the included key/row != nil", "the filter does not forward a row exactly when Include returned non-nil (e.g. tests the key's length): rows with an empty but non-nil key — points carrying none of the dimensions, the NULL group — are dropped although the predicate holds")
			}
		}
		c.floor(rule, "forwarding call in "+name, n, 1)
	}
	if fn := c.need(rule, "(z/planner.pointsAndHavingFieldSource).Get"); fn != nil {
		// the append of PointsField precedes every append of a _having field
		var first ssa.Instruction
		var rest []ssa.Instruction
		for _, call := range callsTo(fn, "builtin append") {
			isPoints := false
			for _, e := range variadicElems(call.Common().Args[1]) {
				if globalName(e) == "z/core.PointsField" {
					isPoints = true
				}
			}
			if isPoints {
				first = call
			} else {
				rest = append(rest, call)
			}
		}
		if first == nil {
			// result := core.Fields{core.PointsField}: the literal's element store
			for _, in := range instrs(fn) {
				if st, ok := in.(*ssa.Store); ok && globalName(st.Val) == "z/core.PointsField" {
					if _, isIA := st.Addr.(*ssa.IndexAddr); isIA {
						first = st
					}
				}
			}
		}
		ok := first != nil && len(rest) > 0
		for _, r := range rest {
			if first == nil || !instrDominates(first, r) {
				ok = false
			}
		}
		c.check(rule, "sub-query fields: _points first, _having last", fn.Pos(), ok, "append(result, PointsField) dominates the appends of _having fields", "the synthetic sub-query field list does not end with the _having flag: addHaving reads the keep/drop flag from the last column and would test _points instead")
	}
	if fn := c.need(rule, "(*z/sql.selectClause).addField"); fn != nil {
		var app ssa.Instruction
		for _, call := range callsTo(fn, "builtin append") {
			app = call
		}
		var mus []ssa.Instruction
		for _, in := range instrs(fn) {
			if mu, ok := in.(*ssa.MapUpdate); ok && isFieldLoad(mu.Map, "z/sql.fielded.fieldsMap") {
				mus = append(mus, mu)
			}
		}
		ok := app != nil && len(mus) > 0
		if ok {
			for _, b := range fn.Blocks {
				if r, isR := b.Instrs[len(b.Instrs)-1].(*ssa.Return); isR && reach([]*ssa.BasicBlock{app.Block()}, nil, nil)[b] {
					if !mustPassBetween(app, r, mus) {
						ok = false
					}
				}
			}
		}
		c.check(rule, "a selected field is always registered under its name", fn.Pos(), ok, "every path that appends the field also sets fieldsMap[name]", "a selected alias can be appended without (re)registering it in fieldsMap: HAVING that refers to an alias shadowing a table column is evaluated on the raw column")
	}
}

// ruleLoopCapture: the module is built with pre-1.22 loop-variable semantics
// (go.mod: go 1.12): a goroutine started inside a loop that captures a variable
// declared outside the loop body but assigned in the loop sees whatever value the
// variable has when the goroutine runs, not the value of its iteration.
func ruleLoopCapture(c *Ctx, rule string, pkgs ...string) {
	c.describe(rule, "flow: goroutines started inside a loop (one per IN-subquery in planSubQueries, one per partition in queryCluster, …) bind their own iteration's values — no closure run with `go` captures a variable that lives across iterations and is assigned inside the loop (per-iteration copies or arguments are required under the module's go 1.12 loop-variable semantics)")
	n := 0
	for _, fn := range c.P.ModFns {
		pk := pkgOf(fn)
		in := false
		for _, p := range pkgs {
			if pk == p {
				in = true
			}
		}
		if !in {
			continue
		}
		for _, ins := range instrs(fn) {
			g, ok := ins.(*ssa.Go)
			if !ok {
				continue
			}
			l := innermostLoop(fn, g.Block())
			if l == nil {
				continue
			}
			mc, ok := g.Call.Value.(*ssa.MakeClosure)
			if !ok {
				continue
			}
			n++
			c.touch(fn)
			bad := ""
			for _, b := range mc.Bindings {
				al, isAl := b.(*ssa.Alloc)
				if !isAl || l.body[al.Block()] {
					continue // a fresh cell per iteration
				}
				for _, st := range cellStores(fn, al) {
					if st.Parent() == fn && l.body[st.Block()] {
						bad = al.Comment
					}
				}
			}
			top := fn
			for top.Parent() != nil {
				top = top.Parent()
			}
			k := perTopCount(c, rule, top)
			c.check(rule, stableName(top)+": goroutine #"+itoa(k)+" started in a loop binds per-iteration values", g.Pos(), bad == "", "captures only variables declared inside the loop body (or none assigned in the loop)", "the goroutine captures '"+bad+"', which is declared outside the loop body and assigned on every iteration: all goroutines can observe the last iteration's value (only the last IN-subquery / partition is evaluated, the others get its result or none)")
		}
	}
	c.floor(rule, "goroutines started in loops", n, 1)
}

func perTopCount(c *Ctx, rule string, top *ssa.Function) int {
	if c.counters == nil {
		c.counters = map[string]int{}
	}
	k := c.Prop + "|" + rule + "|" + top.String()
	c.counters[k]++
	return c.counters[k]
}

// ruleC08f: the consumer of HAVING (addHaving) reads and strips the LAST value
// of a row; the group operator must therefore emit _having as its last field,
// also when CROSSTAB adds per-value and total columns.
func ruleC08f(c *Ctx, rule string) {
	c.describe(rule, "dom: in (*group).Iterate's CROSSTAB field construction the saved _having field is appended after every other output field — no append to the output field list is reachable from the append of the _having field")
	gi := c.need(rule, "(*z/core.group).Iterate")
	if gi == nil {
		return
	}
	isFieldAppend := func(call ssa.CallInstruction) bool {
		return isCall(call, "builtin append") && typeStr(call.Common().Args[0].Type()) == "[]z/core.Field" || isCall(call, "builtin append") && typeStr(call.Common().Args[0].Type()) == "z/core.Fields"
	}
	var having []ssa.CallInstruction
	var all []ssa.CallInstruction
	for _, call := range calls(gi) {
		if !isFieldAppend(call) {
			continue
		}
		all = append(all, call)
		// guarded by havingField.Name != ""
		for _, g := range guardsOf(call.Block()) {
			b, ok := g.v.(*ssa.BinOp)
			if !ok || (b.Op != token.NEQ && b.Op != token.EQL) {
				continue
			}
			ne := b.Op == token.NEQ
			if !g.pos {
				ne = !ne
			}
			s1, ok1 := constString(b.X)
			s2, ok2 := constString(b.Y)
			empty := (ok1 && s1 == "") || (ok2 && s2 == "")
			if ne && empty && (isFieldValue(b.X, "Name") || isFieldValue(b.Y, "Name") || isFieldLoadOrAddrName(b.X, "Name") || isFieldLoadOrAddrName(b.Y, "Name")) {
				having = append(having, call)
			}
		}
	}
	if len(having) != 1 {
		c.undecided(rule, "group.Iterate: _having is the last crosstab output field", gi.Pos(), "expected one append of the saved _having field (guarded by havingField.Name != \"\"), found "+itoa(len(having)))
		return
	}
	h := having[0]
	later := ""
	for _, call := range all {
		if call == h {
			continue
		}
		if instrReaches(h, call.(ssa.Instruction), nil) {
			later = c.P.Pos(call.Pos())
		}
	}
	c.check(rule, "group.Iterate: _having is the last crosstab output field", h.Pos(), later == "", "no output field is appended after _having", "an output field is appended after the _having field (at "+later+"): addHaving reads the include flag from the last value and strips only that one, so with CROSSTABT rows are kept or dropped by a total column and the helper value stays in the row")
}

// ruleC08g: value comparisons in HAVING / conditional expressions are exact.
func ruleC08g(c *Ctx, rule string) {
	c.describe(rule, "reg: each comparison registered with registerCond implements exactly its operator on its two arguments — the closure registered for \"=\" returns left == right, for \"<>\" left != right, and likewise <, <=, >=, > (no tolerance, no swapped operands): HAVING keeps exactly the rows whose values satisfy the predicate")
	want := map[string]token.Token{"<": token.LSS, "<=": token.LEQ, "=": token.EQL, "<>": token.NEQ, ">=": token.GEQ, ">": token.GTR}
	seen := map[string]bool{}
	for _, fn := range c.P.ModFns {
		if pkgOf(fn) != "z/expr" {
			continue
		}
		for _, call := range callsTo(fn, "z/expr.registerCond") {
			a := call.Common().Args
			op, ok := constString(a[0])
			if !ok {
				continue
			}
			tk, cmp := want[op]
			if !cmp {
				continue
			}
			seen[op] = true
			var f *ssa.Function
			switch x := a[1].(type) {
			case *ssa.MakeClosure:
				f, _ = x.Fn.(*ssa.Function)
			case *ssa.Function:
				f = x
			case *ssa.ChangeType:
				if fx, isF := x.X.(*ssa.Function); isF {
					f = fx
				}
				if mc, isMC := x.X.(*ssa.MakeClosure); isMC {
					f, _ = mc.Fn.(*ssa.Function)
				}
			}
			exact := false
			if f != nil && len(f.Params) == 2 {
				c.touch(f)
				exact = true
				nRet := 0
				for _, in := range instrs(f) {
					r, isR := in.(*ssa.Return)
					if !isR {
						continue
					}
					nRet++
					b, isB := r.Results[0].(*ssa.BinOp)
					if !isB || b.Op != tk || b.X != ssa.Value(f.Params[0]) || b.Y != ssa.Value(f.Params[1]) {
						exact = false
					}
				}
				if nRet == 0 {
					exact = false
				}
			}
			c.check(rule, "registered comparison "+op+" is exact", call.Pos(), exact, "returns left "+tk.String()+" right", "the comparison registered for "+op+" is not exactly 'left "+tk.String()+" right' (tolerance, rounding or different operands): HAVING / IF conditions keep or drop rows whose values do not satisfy the written predicate (e.g. = 100000 also matches 100001 with a relative epsilon)")
		}
	}
	for op := range want {
		if !seen[op] {
			c.undecided(rule, "registered comparison "+op+" is exact", token.NoPos, "no registerCond call with the constant operator "+op+" found")
		}
	}
}

// ruleC08h: a row handed to a row consumer is the consumer's to keep.
func ruleC08h(c *Ctx, rule string) {
	c.describe(rule, "flow (ownership): the Vals slice (or *FlatRow) an operator in package core passes to an OnRow (OnFlatRow) callback is either the one it received from its own source for this row or one allocated during this call — never a buffer kept across rows (captured variable / field): consumers such as the CROSSTAB path of group.Iterate retain rows until the scan ends")
	n := 0
	for _, fn := range c.P.ModFns {
		if pkgOf(fn) != "z/core" {
			continue
		}
		for _, call := range calls(fn) {
			cc := call.Common()
			if cc.IsInvoke() || cc.StaticCallee() != nil {
				continue
			}
			var v ssa.Value
			switch {
			case typeStr(cc.Value.Type()) == "z/core.OnRow" && len(cc.Args) == 2:
				v = strip(cc.Args[1])
			case typeStr(cc.Value.Type()) == "z/core.OnFlatRow" && len(cc.Args) == 1:
				v = strip(cc.Args[0])
			default:
				continue
			}
			n++
			c.touch(fn)
			kind := "other"
			switch x := v.(type) {
			case *ssa.Parameter:
				kind = "passed through"
			case *ssa.MakeSlice, *ssa.Slice, *ssa.Alloc, *ssa.Call:
				kind = "allocated in this call"
				_ = x
			case *ssa.UnOp:
				if x.Op == token.MUL {
					if _, isElem := x.X.(*ssa.IndexAddr); isElem {
						kind = "an element of a collection (one per row)"
					} else if al, isAl := cellRoot(x.X).(*ssa.Alloc); isAl && al.Parent() == fn {
						kind = "local"
					} else if _, isFV := x.X.(*ssa.FreeVar); isFV {
						kind = "kept across rows"
					} else if _, isFA := x.X.(*ssa.FieldAddr); isFA {
						kind = "kept across rows"
					}
				}
			case *ssa.Phi:
				kind = "local"
			}
			top := topOf(fn)
			c.check(rule, stableName(top)+": row #"+itoa(perTopCount(c, rule, top))+" handed to the consumer is not a reused buffer", call.Pos(), kind != "kept across rows", kind, "the values passed to the row consumer live in a variable that survives the row (captured by the callback / a field): every row a consumer retained (CROSSTAB buffering in group.Iterate, sorting) ends up holding the last row's values")
		}
	}
	c.floor(rule, "OnRow calls in package core", n, 3)
}

// ruleC08i: the sub-query field source forwards the HAVING flag whenever the
// wrapped source has one.
func ruleC08i(c *Ctx, rule string) {
	c.describe(rule, "dom: pointsAndHavingFieldSource.Get always resolves the wrapped field source and forwards every field named _having — the decision is taken on the fields themselves, never on a flag of the query: the non-pushdown rewrite turns a sub-query's HAVING into a plain '… AS _having' column, so followers see HasHaving == false while the leader's addHaving still reads the flag from the last column")
	fn := c.need(rule, "(z/planner.pointsAndHavingFieldSource).Get")
	if fn == nil {
		return
	}
	var get ssa.CallInstruction
	for _, call := range calls(fn) {
		if calleeName(call) == "invoke (z/core.FieldSource).Get" {
			get = call
		}
	}
	if get == nil {
		c.undecided(rule, "sub-query fields: the wrapped source is always resolved", fn.Pos(), "no call of the wrapped FieldSource.Get found")
		return
	}
	// every successful return is dominated by the wrapped Get
	ok, n := true, 0
	for _, in := range instrs(fn) {
		r, isR := in.(*ssa.Return)
		if !isR {
			continue
		}
		if len(r.Results) == 2 && isNilConst(r.Results[1]) {
			n++
			if !instrDominates(get.(ssa.Instruction), r) {
				ok = false
			}
		}
	}
	c.check(rule, "sub-query fields: the wrapped source is always resolved", get.Pos(), ok && n > 0, "every successful return follows wrapped.Get(known)", "pointsAndHavingFieldSource.Get can return without looking at the wrapped fields (e.g. when a query flag says there is no HAVING): a _having column present in the rewritten sub-query is dropped on the followers and the leader's HAVING filter tests _points instead")
}
