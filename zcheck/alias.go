package main

import (
	"encoding/json"
	"fmt"
	"go/types"
	"os"
	"path/filepath"
	"sort"
	"strings"

	"golang.org/x/tools/go/ssa"
)

// Rename tolerance.
//
// Rules name their anchors by resolved SSA names ("(*z.rowStore).processInserts",
// field keys "z.rowStore.mx"). A pure rename of an unexported function, type or
// field keeps every property but would leave all those anchors unresolved. The
// file symbols.json (generated with -gensymbols from the tree the rules were
// written against, committed next to the rules) records a fingerprint of every
// module type, struct field and top-level function. When the current tree lacks a
// recorded symbol and has a new one of the same kind in the same place whose
// fingerprint matches (same package / receiver / signature for functions and a
// similar set of callees and fields; same struct and type for fields; similar
// field types and methods for types), the new name is treated as an alias of the
// recorded one: every name the rules see is mapped back to the recorded spelling.
// Aliases are listed in the evidence. Anything ambiguous stays unresolved (and
// the rule that needs it fails as UNDECIDED, as before).

type symType struct {
	Fields  [][2]string `json:"fields"` // name, type
	Methods []string    `json:"methods"`
}

type symFunc struct {
	Pkg     string   `json:"pkg"`
	Recv    string   `json:"recv"`
	Sig     string   `json:"sig"`
	Callees []string `json:"callees"`
	Fields  []string `json:"fields"`
}

type symbols struct {
	Types map[string]symType `json:"types"`
	Funcs map[string]symFunc `json:"funcs"`
}

var disableAliases bool

var (
	aliasTypes  [][2]string // new -> recorded
	aliasFuncs  [][2]string
	aliasFields = map[string]string{}
	aliasNotes  []string
)

func isIdentByte(b byte) bool {
	return b == '_' || b >= '0' && b <= '9' || b >= 'a' && b <= 'z' || b >= 'A' && b <= 'Z'
}

// replaceToken replaces occurrences of from (not followed by an identifier
// character, not preceded by one or by '/') with to.
func replaceToken(s, from, to string) string {
	if !strings.Contains(s, from) {
		return s
	}
	var sb strings.Builder
	for i := 0; i < len(s); {
		j := strings.Index(s[i:], from)
		if j < 0 {
			sb.WriteString(s[i:])
			break
		}
		j += i
		end := j + len(from)
		okAfter := end >= len(s) || !isIdentByte(s[end])
		okBefore := j == 0 || !(isIdentByte(s[j-1]) || s[j-1] == '/')
		sb.WriteString(s[i:j])
		if okAfter && okBefore {
			sb.WriteString(to)
		} else {
			sb.WriteString(from)
		}
		i = end
	}
	return sb.String()
}

func applyAliases(s string) string {
	for _, a := range aliasTypes {
		s = replaceToken(s, a[0], a[1])
	}
	for _, a := range aliasFuncs {
		s = replaceToken(s, a[0], a[1])
	}
	return s
}

func jaccard(a, b []string) float64 {
	if len(a) == 0 && len(b) == 0 {
		return 1
	}
	ca := map[string]int{}
	for _, x := range a {
		ca[x]++
	}
	cb := map[string]int{}
	for _, x := range b {
		cb[x]++
	}
	inter, union := 0, 0
	for k, n := range ca {
		m := cb[k]
		if m < n {
			inter += m
			union += n
		} else {
			inter += n
			union += m
		}
	}
	for k, m := range cb {
		if _, ok := ca[k]; !ok {
			union += m
		}
	}
	if union == 0 {
		return 1
	}
	return float64(inter) / float64(union)
}

// snapshot computes the symbol table of the loaded program (names as the rules
// see them, i.e. after the aliases currently in force).
func snapshot(prog *ssa.Program, allFns map[*ssa.Function]bool) *symbols {
	sy := &symbols{Types: map[string]symType{}, Funcs: map[string]symFunc{}}
	for _, sp := range prog.AllPackages() {
		if !strings.HasPrefix(sp.Pkg.Path(), modPath) {
			continue
		}
		for _, m := range sp.Members {
			t, ok := m.(*ssa.Type)
			if !ok {
				continue
			}
			nm := short(sp.Pkg.Path() + "." + t.Name())
			st := symType{}
			if s, ok := t.Type().Underlying().(*types.Struct); ok {
				for i := 0; i < s.NumFields(); i++ {
					st.Fields = append(st.Fields, [2]string{s.Field(i).Name(), typeStr(s.Field(i).Type())})
				}
			}
			seen := map[string]bool{}
			for _, tt := range []types.Type{t.Type(), types.NewPointer(t.Type())} {
				ms := types.NewMethodSet(tt)
				for i := 0; i < ms.Len(); i++ {
					n := ms.At(i).Obj().Name()
					if !seen[n] {
						seen[n] = true
						st.Methods = append(st.Methods, n)
					}
				}
			}
			sort.Strings(st.Methods)
			sy.Types[nm] = st
		}
	}
	for fn := range allFns {
		if fn.Parent() != nil || fn.Synthetic != "" || !inModule(fn) || len(fn.Blocks) == 0 {
			continue
		}
		sf := symFunc{Pkg: pkgOf(fn)}
		sig := fn.Signature
		if sig.Recv() != nil {
			sf.Recv = typeStr(sig.Recv().Type())
		}
		sf.Sig = short(types.TypeString(types.NewSignatureType(nil, nil, nil, sig.Params(), sig.Results(), sig.Variadic()), nil))
		for _, f := range withAnon(fn) {
			for _, call := range calls(f) {
				cn := calleeName(call)
				if cn != "dynamic" {
					sf.Callees = append(sf.Callees, cn)
				}
			}
			for _, in := range instrs(f) {
				switch x := in.(type) {
				case *ssa.FieldAddr:
					if fv := fieldVar(x.X.Type(), x.Field); fv != nil {
						sf.Fields = append(sf.Fields, fieldKey(x.X.Type(), fv))
					}
				case *ssa.Field:
					if fv := fieldVar(x.X.Type(), x.Field); fv != nil {
						sf.Fields = append(sf.Fields, fieldKey(x.X.Type(), fv))
					}
				}
			}
		}
		sort.Strings(sf.Callees)
		sort.Strings(sf.Fields)
		sy.Funcs[short(fn.String())] = sf
	}
	return sy
}

func writeSymbols(path string, sy *symbols) error {
	b, err := json.MarshalIndent(sy, "", " ")
	if err != nil {
		return err
	}
	return os.WriteFile(path, b, 0o644)
}

func loadSymbols(verifDir string) *symbols {
	cands := []string{filepath.Join(verifDir, "symbols.json")}
	if self, err := os.Executable(); err == nil {
		cands = append(cands, filepath.Join(filepath.Dir(filepath.Dir(self)), "symbols.json"))
	}
	cands = append(cands, "/verif/symbols.json")
	for _, p := range cands {
		b, err := os.ReadFile(p)
		if err != nil {
			continue
		}
		sy := &symbols{}
		if json.Unmarshal(b, sy) == nil {
			return sy
		}
	}
	return nil
}

func pkgOfName(n string) string {
	// "(*z/planner.T).m" / "z/planner.f" / "z.T" -> "z/planner" / "z"
	n = strings.TrimPrefix(n, "(")
	n = strings.TrimPrefix(n, "*")
	if i := strings.LastIndex(n, "/"); i >= 0 {
		rest := n[i+1:]
		if j := strings.Index(rest, "."); j >= 0 {
			return n[:i+1+j]
		}
		return n
	}
	if j := strings.Index(n, "."); j >= 0 {
		return n[:j]
	}
	return n
}

// computeAliases fills the alias tables for the loaded program from the recorded
// symbols. It is a no-op when nothing recorded is missing.
func computeAliases(prog *ssa.Program, allFns map[*ssa.Function]bool, verifDir string) {
	aliasTypes, aliasFuncs, aliasNotes = nil, nil, nil
	aliasFields = map[string]string{}
	if disableAliases {
		return
	}
	rec := loadSymbols(verifDir)
	if rec == nil {
		return
	}
	cur := snapshot(prog, allFns)
	// 1. types
	var missT, newT []string
	for n := range rec.Types {
		if _, ok := cur.Types[n]; !ok {
			missT = append(missT, n)
		}
	}
	for n := range cur.Types {
		if _, ok := rec.Types[n]; !ok {
			newT = append(newT, n)
		}
	}
	sort.Strings(missT)
	sort.Strings(newT)
	typeFP := func(t symType) []string {
		var out []string
		for _, f := range t.Fields {
			out = append(out, "f:"+f[1])
		}
		for _, m := range t.Methods {
			out = append(out, "m:"+m)
		}
		return out
	}
	usedNew := map[string]bool{}
	for _, m := range missT {
		best, second, bestN := 0.0, 0.0, ""
		for _, n := range newT {
			if usedNew[n] || pkgOfName(n) != pkgOfName(m) {
				continue
			}
			// the renamed type's own name occurs in its field/method-free fingerprint only through types
			fpN := typeFP(cur.Types[n])
			for i := range fpN {
				fpN[i] = replaceToken(fpN[i], n, m)
			}
			s := jaccard(typeFP(rec.Types[m]), fpN)
			if s > best {
				second, best, bestN = best, s, n
			} else if s > second {
				second = s
			}
		}
		if bestN != "" && best >= 0.6 && best-second >= 0.15 {
			usedNew[bestN] = true
			aliasTypes = append(aliasTypes, [2]string{bestN, m})
			aliasNotes = append(aliasNotes, fmt.Sprintf("type %s is taken for the recorded %s (renamed; fingerprint similarity %.2f)", bestN, m, best))
		}
	}
	if len(aliasTypes) > 0 {
		cur = snapshot(prog, allFns) // names now use the recorded type names
	}
	// 2. fields
	for tn, rt := range rec.Types {
		ct, ok := cur.Types[tn]
		if !ok {
			continue
		}
		recBy, curBy := map[string]string{}, map[string]string{}
		for _, f := range rt.Fields {
			recBy[f[0]] = f[1]
		}
		for _, f := range ct.Fields {
			curBy[f[0]] = f[1]
		}
		var missF, newF []string
		for n := range recBy {
			if _, ok := curBy[n]; !ok {
				missF = append(missF, n)
			}
		}
		for n := range curBy {
			if _, ok := recBy[n]; !ok {
				newF = append(newF, n)
			}
		}
		sort.Strings(missF)
		sort.Strings(newF)
		for _, m := range missF {
			var cands []string
			for _, n := range newF {
				if curBy[n] == recBy[m] {
					cands = append(cands, n)
				}
			}
			nSameTypeMissing := 0
			for _, m2 := range missF {
				if recBy[m2] == recBy[m] {
					nSameTypeMissing++
				}
			}
			if len(cands) == 1 && nSameTypeMissing == 1 {
				aliasFields[tn+"."+cands[0]] = tn + "." + m
				aliasNotes = append(aliasNotes, fmt.Sprintf("field %s.%s is taken for the recorded %s.%s (renamed; same struct, same type)", tn, cands[0], tn, m))
			}
		}
	}
	// 3. functions (two passes: callees may be renamed themselves)
	for pass := 0; pass < 2; pass++ {
		if pass == 1 {
			if len(aliasFuncs) == 0 && len(aliasFields) == 0 {
				break
			}
			cur = snapshot(prog, allFns)
		} else if len(aliasFields) > 0 {
			cur = snapshot(prog, allFns)
		}
		var missF, newF []string
		for n := range rec.Funcs {
			if _, ok := cur.Funcs[n]; !ok {
				missF = append(missF, n)
			}
		}
		for n := range cur.Funcs {
			if _, ok := rec.Funcs[n]; !ok {
				newF = append(newF, n)
			}
		}
		sort.Strings(missF)
		sort.Strings(newF)
		used := map[string]bool{}
		for _, m := range missF {
			rm := rec.Funcs[m]
			best, second, bestN := -1.0, -1.0, ""
			nc := 0
			for _, n := range newF {
				cn := cur.Funcs[n]
				if used[n] || cn.Pkg != rm.Pkg || cn.Recv != rm.Recv || cn.Sig != rm.Sig {
					continue
				}
				nc++
				// recursion: a call to itself carries the function's own name
				cal := make([]string, len(cn.Callees))
				for i, c := range cn.Callees {
					cal[i] = replaceToken(c, n, m)
				}
				s := 0.7*jaccard(rm.Callees, cal) + 0.3*jaccard(rm.Fields, cn.Fields)
				if s > best {
					second, best, bestN = best, s, n
				} else if s > second {
					second = s
				}
			}
			if bestN == "" {
				continue
			}
			if (best >= 0.5 && best-second >= 0.15) || (nc == 1 && best >= 0.3) {
				used[bestN] = true
				dup := false
				for _, a := range aliasFuncs {
					if a[0] == bestN {
						dup = true
					}
				}
				if !dup {
					aliasFuncs = append(aliasFuncs, [2]string{bestN, m})
					aliasNotes = append(aliasNotes, fmt.Sprintf("function %s is taken for the recorded %s (renamed; same package, receiver and signature, fingerprint similarity %.2f)", bestN, m, best))
				}
			}
		}
	}
	// 4. method <-> function conversions: "(*T).m(args)" became "m(t, args)" (or back)
	cur = snapshot(prog, allFns)
	baseName := func(n string) string {
		if i := strings.LastIndex(n, "."); i >= 0 {
			return n[i+1:]
		}
		return n
	}
	paramBag := func(f symFunc) []string {
		// parameter types of the signature string "func(a T1, b T2) R" plus the receiver
		sig := f.Sig
		var out []string
		if i := strings.Index(sig, "("); i >= 0 {
			depth, start := 0, i+1
			for j := i; j < len(sig); j++ {
				switch sig[j] {
				case '(', '[', '{':
					depth++
				case ')', ']', '}':
					depth--
					if depth == 0 {
						if j > start {
							out = append(out, strings.TrimSpace(sig[start:j]))
						}
						j = len(sig)
					}
				case ',':
					if depth == 1 {
						out = append(out, strings.TrimSpace(sig[start:j]))
						start = j + 1
					}
				}
			}
		}
		for i, p := range out {
			// drop the parameter name
			if k := strings.Index(p, " "); k >= 0 {
				out[i] = p[k+1:]
			}
		}
		if f.Recv != "" {
			out = append(out, f.Recv)
		}
		sort.Strings(out)
		return out
	}
	var missM, newM []string
	for n := range rec.Funcs {
		if _, ok := cur.Funcs[n]; !ok {
			missM = append(missM, n)
		}
	}
	for n := range cur.Funcs {
		if _, ok := rec.Funcs[n]; !ok {
			newM = append(newM, n)
		}
	}
	sort.Strings(missM)
	sort.Strings(newM)
	for _, m := range missM {
		rm := rec.Funcs[m]
		var cands []string
		for _, n := range newM {
			cn := cur.Funcs[n]
			if cn.Pkg != rm.Pkg || baseName(n) != baseName(m) || (cn.Recv == "") == (rm.Recv == "") {
				continue
			}
			if strings.Join(paramBag(cn), ";") == strings.Join(paramBag(rm), ";") {
				cands = append(cands, n)
			}
		}
		if len(cands) == 1 {
			dup := false
			for _, a := range aliasFuncs {
				if a[0] == cands[0] {
					dup = true
				}
			}
			if !dup {
				aliasFuncs = append(aliasFuncs, [2]string{cands[0], m})
				aliasNotes = append(aliasNotes, fmt.Sprintf("function %s is taken for the recorded %s (method/function conversion: same package, name and parameter types)", cands[0], m))
			}
		}
	}
	sort.Strings(aliasNotes)
}
