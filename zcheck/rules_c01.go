package main

import (
	"go/token"

	"golang.org/x/tools/go/ssa"
)

// C01 — each ingested point is aggregated exactly once into the right group and period.

// findIf returns the Ifs in fn whose (un-negated) condition satisfies pred,
// with the polarity the condition has on the TRUE edge.
type condIf struct {
	i   *ssa.If
	pol bool // polarity of the matched condition on the true edge
	v   ssa.Value
}

func findIfs(fn *ssa.Function, pred func(v ssa.Value) bool) []condIf {
	var out []condIf
	for _, b := range fn.Blocks {
		i := ifOf(b)
		if i == nil {
			continue
		}
		v, pol := unNot(i.Cond, true)
		if pred(v) {
			out = append(out, condIf{i, pol, v})
		}
	}
	return out
}

// succFor returns the successor taken when the matched condition has value want.
func (ci condIf) succFor(want bool) *ssa.BasicBlock {
	if ci.pol == want {
		return ci.i.Block().Succs[0]
	}
	return ci.i.Block().Succs[1]
}

// edgeCannotReach: from the edge where cond==val, no block containing one of
// the target instructions is reachable (without restriction).
func edgeCannotReach(ci condIf, val bool, targets []ssa.Instruction) bool {
	r := reach([]*ssa.BasicBlock{ci.succFor(val)}, nil, nil)
	for _, t := range targets {
		if r[t.Block()] {
			return false
		}
	}
	return true
}

func asInstrs(cs []ssa.CallInstruction) []ssa.Instruction {
	var out []ssa.Instruction
	for _, c := range cs {
		out = append(out, c)
	}
	return out
}

func ruleC01a(c *Ctx, rule string) {
	c.describe(rule, "dom: single application — (*rowStore).processInserts has exactly one Tree.Update call site, not nested in an inner loop, guarded by the exact test insert.key != nil (skip entries carry a nil key), and the offset is recorded for every insert before that test; (*table).doInsert has exactly two rowStore.insert call sites: one outside any loop under hasMainValue, one inside the loop over the additional array values")
	if pi := c.need(rule, "(*z.rowStore).processInserts"); pi != nil {
		ap, ups := ingestApplier(c.P)
		if ap == nil || !privateHelperOf(c.P, ap, pi) {
			c.bad(rule, "processInserts: one Tree.Update call site", pi.Pos(), "the memstore tree is updated in "+itoa(len(ups))+" place(s), not in exactly one function that is processInserts or a private helper of it: points can be applied more than once (or never)")
			return
		}
		c.touch(ap)
		if !c.check(rule, "processInserts: one Tree.Update call site", ap.Pos(), len(ups) == 1, "exactly one call site (in "+stableName(ap)+")", "found "+itoa(len(ups))+" Tree.Update call sites: every point would be applied that many times (or never)") {
			return
		}
		up := ups[0]
		// loop nesting: the update (or the single call of the helper containing it) sits directly in the select loop
		nest := len(loopsContaining(ap, up.Block()))
		if ap != pi {
			cs := callSitesOf(c.P, ap)
			nest = -1
			if len(cs) == 1 && len(loopsContaining(ap, up.Block())) == 0 {
				nest = len(loopsContaining(pi, cs[0].Block()))
			}
		}
		c.check(rule, "processInserts: Tree.Update not in an inner loop", up.Pos(), nest == 1, "only the select loop contains it", "Tree.Update is nested in an inner loop (or its helper is called from several places): a point can be applied several times")
		guarded := false
		for _, g := range guardsOf(up.Block()) {
			if x, nn, ok := nilTest(g); ok && nn && isFieldLoad(x, "z.insert.key") {
				guarded = true
			}
		}
		c.check(rule, "processInserts: Tree.Update guarded by insert.key != nil", up.Pos(), guarded, "the update is applied exactly when the entry carries a key (non-nil), skip entries (nil key) only advance the offset", "the guard of Tree.Update is not the exact test insert.key != nil: points with an empty (but non-nil) group key — no group-by dimension present — would be dropped, or skip entries would be applied")
		var mu ssa.Instruction
		for _, in := range instrs(ap) {
			if m, ok := in.(*ssa.MapUpdate); ok && isFieldLoad(m.Map, "z.memstore.offsetsBySource") {
				mu = in
			}
		}
		c.check(rule, "processInserts: offset recorded for every insert", up.Pos(), mu != nil && instrDominates(mu, up), "ms.offsetsBySource[source] = offset precedes the key test", "the offset of an insert is not recorded unconditionally before the row is applied")
	}
	if di := c.need(rule, "(*z.table).doInsert"); di != nil {
		ins := callsTo(di, "(*z.rowStore).insert")
		if !c.check(rule, "doInsert: two rowStore.insert call sites", di.Pos(), len(ins) == 2, "main value + additional array values", "found "+itoa(len(ins))+" rowStore.insert call sites (expected 2): a duplicated call double-counts every point, a missing one loses values") {
			return
		}
		var outside, inside ssa.CallInstruction
		for _, call := range ins {
			if len(loopsContaining(di, call.Block())) == 0 {
				outside = call
			} else {
				inside = call
			}
		}
		c.check(rule, "doInsert: one insert outside loops, one in the additional-values loop", di.Pos(), outside != nil && inside != nil, "as expected", "the two rowStore.insert calls are not (one outside any loop, one inside the loop over additional values)")
		if outside != nil {
			g := false
			for _, a := range guardsOf(outside.Block()) {
				if a.pos {
					// hasMainValue: a bool loaded from a cell that closures set to true
					if u, ok := a.v.(*ssa.UnOp); ok && u.Op == token.MUL {
						for _, st := range cellStores(di, cellRoot(u.X)) {
							if b, isC := constBool(st.Val); isC && b {
								g = true
							}
						}
					}
				}
			}
			c.check(rule, "doInsert: main insert only if a main value exists", outside.Pos(), g, "guarded by hasMainValue", "the main rowStore.insert is not guarded by hasMainValue: points without numeric values create empty rows (or valid ones are lost)")
		}
	}
}

// firstBlockOfCase: helper for "same select case": returns mu's block if it
// dominates up's block and no loop header lies between them; else nil.
func firstBlockOfCase(up ssa.Instruction, mu ssa.Instruction) *ssa.BasicBlock {
	if mu.Block().Dominates(up.Block()) {
		return mu.Block()
	}
	return nil
}

func ruleC01b(c *Ctx, rule string) {
	c.describe(rule, "dom (edge-reachability): points older than truncateBefore(), points of another partition (followers) and points rejected by the table's WHERE cannot reach the store — the rejecting edge of each filter cannot reach doInsert / rowStore.insert")
	if ti := c.need(rule, "(*z.table).insert"); ti != nil {
		dis := asInstrs(callsTo(ti, "(*z.table).doInsert"))
		c.floor(rule, "doInsert call in (*table).insert", len(dis), 1)
		old := findIfs(ti, func(v ssa.Value) bool {
			call, ok := v.(*ssa.Call)
			return ok && isCall(call, "(time.Time).Before") && isCallValue(call.Call.Args[1], "(*z.table).truncateBefore")
		})
		if len(old) == 0 {
			c.bad(rule, "insert: too-old points are rejected", ti.Pos(), "no test ts.Before(t.truncateBefore()) found: points older than the retention period are stored")
		}
		for _, ci := range old {
			ok := edgeCannotReach(ci, true, dis) && !edgeCannotReach(ci, false, dis)
			c.check(rule, "insert: too-old points are rejected", ci.i.Pos(), ok, "ts.Before(truncateBefore())==true cannot reach doInsert, ==false can", "the retention filter on ingest does not keep expired points out (or rejects everything)")
		}
		part := findIfs(ti, func(v ssa.Value) bool {
			call, ok := v.(*ssa.Call)
			return ok && isCall(call, "(*z.DB).inPartition")
		})
		if len(part) == 0 {
			c.bad(rule, "insert: followers keep only their partition", ti.Pos(), "no inPartition test found in (*table).insert")
		}
		for _, ci := range part {
			ok := edgeCannotReach(ci, false, dis) && !edgeCannotReach(ci, true, dis)
			c.check(rule, "insert: followers keep only their partition", ci.i.Pos(), ok, "inPartition()==false cannot reach doInsert", "a point that is not in the follower's partition can reach doInsert (or in-partition points cannot)")
			// and the test applies under isFollower
			fo := false
			for _, g := range guardsOf(ci.i.Block()) {
				if p, isP := g.v.(*ssa.Parameter); isP && g.pos && p.Name() == "isFollower" {
					fo = true
				}
			}
			if !fo {
				// isFollower && !inPartition lowers to nested ifs: the inPartition block is entered only via isFollower==true
				for _, pr := range ci.i.Block().Preds {
					if i2 := ifOf(pr); i2 != nil {
						if p, isP := i2.Cond.(*ssa.Parameter); isP && pr.Succs[0] == ci.i.Block() && typeStr(p.Type()) == "bool" {
							fo = true
						}
					}
				}
			}
			c.check(rule, "insert: partition filter applies to followers", ci.i.Pos(), fo, "evaluated under isFollower", "the partition filter is not conditioned on isFollower")
		}
	}
	if di := c.need(rule, "(*z.table).doInsert"); di != nil {
		ins := asInstrs(callsTo(di, "(*z.rowStore).insert"))
		wh := findIfs(di, func(v ssa.Value) bool {
			// where.Eval(dims).(bool)
			ta, ok := v.(*ssa.TypeAssert)
			if !ok {
				return false
			}
			call, ok := ta.X.(*ssa.Call)
			return ok && calleeName(call) == "invoke (github.com/getlantern/goexpr.Expr).Eval"
		})
		if len(wh) == 0 {
			c.bad(rule, "doInsert: WHERE-rejected points are not stored", di.Pos(), "no test of where.Eval(dims) found in doInsert")
		}
		for _, ci := range wh {
			ok := edgeCannotReach(ci, false, ins) && !edgeCannotReach(ci, true, ins)
			c.check(rule, "doInsert: WHERE-rejected points are not stored", ci.i.Pos(), ok, "where.Eval(dims)==false cannot reach rowStore.insert, ==true can", "a point rejected by the table's WHERE can reach rowStore.insert (or accepted points cannot)")
			// the evaluated expression is the table's current where (getWhere) on the point's dims
			ta := ci.v.(*ssa.TypeAssert)
			call := ta.X.(*ssa.Call)
			okW := isCallValue(call.Call.Value, "(*z.table).getWhere")
			c.check(rule, "doInsert: the filter is the table's own WHERE", call.Pos(), okW, "where comes from t.getWhere()", "the predicate evaluated on ingest is not the table's current WHERE")
		}
	}
}

func ruleC01c(c *Ctx, rule string) {
	c.describe(rule, "flow: in Sequence.UpdateValue the timestamp parameter is used only as argument 0 of encoding.RoundTimeUp (the period a point is counted in is the smallest multiple of the resolution >= ts); RoundTimeDown or a raw use is a violation")
	fn := c.need(rule, "(z/encoding.Sequence).UpdateValue")
	if fn == nil {
		return
	}
	var ts *ssa.Parameter
	for _, p := range fn.Params {
		if typeStr(p.Type()) == "time.Time" && ts == nil {
			ts = p
		}
	}
	if ts == nil {
		c.undecided(rule, "UpdateValue ts parameter", fn.Pos(), "no time.Time parameter")
		return
	}
	ok := true
	n := 0
	var badUse string
	for _, r := range liveReferrers(ts) {
		n++
		call, isCall_ := r.(*ssa.Call)
		if !isCall_ || !isCall(call, "z/encoding.RoundTimeUp") || call.Call.Args[0] != ssa.Value(ts) {
			ok = false
			badUse = c.P.Pos(r.Pos())
		}
	}
	c.check(rule, "UpdateValue rounds the timestamp up", fn.Pos(), ok && n > 0, "every use of ts is RoundTimeUp(ts, resolution)", "the raw timestamp of a point is used other than through RoundTimeUp (at "+badUse+"): the point is counted in the wrong period")
	// UpdateValueAt(0…) / offset arithmetic is value-level and not decided here
}

func ruleC01d(c *Ctx, rule string) {
	c.describe(rule, "modsum: nothing stored aliases the recycled WAL read buffer — in (*table).insert no argument of doInsert has the 'data' parameter among its origins (dims/vals are copied), because processInserts returns the buffer to the pool right after")
	ti := c.need(rule, "(*z.table).insert")
	if ti == nil {
		return
	}
	m := getModsum(c)
	og := m.localOrigins(ti)
	dataIdx := -1
	for i, p := range ti.Params {
		if isByteSlice(p.Type()) {
			dataIdx = i
			break
		}
	}
	if dataIdx < 0 {
		c.undecided(rule, "insert data parameter", ti.Pos(), "no []byte parameter")
		return
	}
	for _, call := range callsTo(ti, "(*z.table).doInsert") {
		ok := true
		for _, a := range call.Common().Args {
			if !tracked(a.Type()) {
				continue
			}
			o := og[a]
			if p, isP := a.(*ssa.Parameter); isP {
				for i, q := range ti.Params {
					if q == p {
						o = pbit(i)
					}
				}
			}
			if o&pbit(dataIdx) != 0 || o&bitOther != 0 {
				ok = false
			}
		}
		c.check(rule, "insert copies dims/vals out of the WAL buffer", call.Pos(), ok, "all slice arguments of doInsert are fresh copies", "doInsert receives a slice that aliases the WAL read buffer (parameter data): keys/values stored in the memstore change when the buffer is reused for the next entry")
	}
	// and the buffer really is recycled after insert (otherwise the rule is moot, not wrong)
}

func init() {
	register(&PropSpec{
		ID:          "C01",
		Explanation: "Decides the ingest wiring clause: one memstore update per accepted WAL entry (exact nil-key test), the three filters (retention, partition, WHERE) precede the store on every path, the period index comes from RoundTimeUp, nothing stored aliases the recycled WAL buffer, and a rejected entry still advances the offset.",
		NotDecided:  []string{"numerical equality with a reference aggregator", "expression arithmetic and value coercions", "Sequence.UpdateValue offset arithmetic and Merge alignment (values)"},
		Assumptions: []string{"go/ssa models control flow", "modsum external tables"},
		Rules: []func(*Ctx){func(c *Ctx) { ruleC01a(c, "C01.a") }, func(c *Ctx) { ruleC01b(c, "C01.b") }, func(c *Ctx) { ruleC01c(c, "C01.c") }, func(c *Ctx) { ruleC01d(c, "C01.d") }, func(c *Ctx) {
			c.describe("C01.e", "dom: a rejected entry still advances the offset (t.skip)")
			ruleSkipOnReject(c, "C01.e")
		}},
	})
}
