package main

import (
	"go/token"
	"go/types"
	"sort"
	"strings"

	"golang.org/x/tools/go/ssa"
)

// C01 — each ingested point is aggregated exactly once into the right group and period.

// findIf returns the Ifs in fn whose (un-negated) condition satisfies pred,
// with the polarity the condition has on the TRUE edge.
type condIf struct {
	i   *ssa.If
	pol bool // polarity of the matched condition on the true edge
	v   ssa.Value
}

func findIfs(fn *ssa.Function, pred func(v ssa.Value) bool) []condIf {
	var out []condIf
	for _, b := range fn.Blocks {
		i := ifOf(b)
		if i == nil {
			continue
		}
		v, pol := unNot(i.Cond, true)
		if pred(v) {
			out = append(out, condIf{i, pol, v})
		}
	}
	return out
}

// succFor returns the successor taken when the matched condition has value want.
func (ci condIf) succFor(want bool) *ssa.BasicBlock {
	if ci.pol == want {
		return ci.i.Block().Succs[0]
	}
	return ci.i.Block().Succs[1]
}

// edgeCannotReach: from the edge where cond==val, no block containing one of
// the target instructions is reachable (without restriction).
func edgeCannotReach(ci condIf, val bool, targets []ssa.Instruction) bool {
	r := reach([]*ssa.BasicBlock{ci.succFor(val)}, nil, nil)
	for _, t := range targets {
		if r[t.Block()] {
			return false
		}
	}
	return true
}

func asInstrs(cs []ssa.CallInstruction) []ssa.Instruction {
	var out []ssa.Instruction
	for _, c := range cs {
		out = append(out, c)
	}
	return out
}

func ruleC01a(c *Ctx, rule string) {
	c.describe(rule, "dom: single application — (*rowStore).processInserts has exactly one Tree.Update call site, not nested in an inner loop, guarded by the exact test insert.key != nil (skip entries carry a nil key), and the offset is recorded for every insert before that test; (*table).doInsert hands a point to the row store through exactly one rowStore.insert call, outside any loop, under hasMainValue — the additional array values travel in the same insert and are applied in a range loop over insert.moreVals next to the main update (one offset, one lock region)")
	if pi := c.need(rule, "(*z.rowStore).processInserts"); pi != nil {
		ap, ups := ingestApplier(c.P)
		if ap == nil || !privateHelperOf(c.P, ap, pi) {
			c.bad(rule, "processInserts: one Tree.Update call site", pi.Pos(), "the memstore tree is updated in "+itoa(len(ups))+" place(s), not in exactly one function that is processInserts or a private helper of it: points can be applied more than once (or never)")
			return
		}
		c.touch(ap)
		// the main site applies insert.vals; the only other sites allowed apply the
		// elements of insert.moreVals (the further values of the same point) inside a
		// range loop over that slice
		var mains, extras, others []ssa.CallInstruction
		for _, u := range ups {
			a := u.Common().Args
			switch {
			case len(a) > 3 && isFieldLoad(a[3], "z.insert.vals"):
				mains = append(mains, u)
			case len(a) > 3 && dependsOn(a[3], func(v ssa.Value) bool { return isFieldLoad(v, "z.insert.moreVals") }):
				extras = append(extras, u)
			default:
				others = append(others, u)
			}
		}
		if !c.check(rule, "processInserts: one Tree.Update call site", ap.Pos(), len(mains) == 1 && len(others) == 0 && len(extras) <= 1, "exactly one call site applies insert.vals (in "+stableName(ap)+"), "+itoa(len(extras))+" applies the elements of insert.moreVals", "found "+itoa(len(mains))+" Tree.Update call sites for insert.vals, "+itoa(len(extras))+" for insert.moreVals and "+itoa(len(others))+" other(s): every point would be applied that many times (or never)") {
			return
		}
		up := mains[0]
		for _, ex := range extras {
			// one level deeper than the main site, in a range loop over insert.moreVals, under the same guard
			l := innermostLoop(ap, ex.Block())
			okLoop := l != nil && isRangeHeader(l.header) && len(loopsContaining(ap, ex.Block())) == len(loopsContaining(ap, up.Block()))+1
			if okLoop {
				okLoop = false
				for _, in := range l.header.Instrs {
					_ = in
				}
				// the ranged collection: len(insert.moreVals) bounds the loop
				for b := range l.body {
					for _, in := range b.Instrs {
						if call, ok := in.(*ssa.Call); ok && isCall(call, "builtin len") && isFieldLoad(call.Call.Args[0], "z.insert.moreVals") {
							okLoop = true
						}
					}
				}
				for _, p := range l.header.Preds {
					for _, in := range p.Instrs {
						if call, ok := in.(*ssa.Call); ok && isCall(call, "builtin len") && isFieldLoad(call.Call.Args[0], "z.insert.moreVals") {
							okLoop = true
						}
					}
				}
			}
			sameGuard := up.Block().Dominates(ex.Block())
			c.check(rule, "processInserts: further values applied once each, with the main value", ex.Pos(), okLoop && sameGuard, "range loop over insert.moreVals right after the main update, under the same lock and key test", "the additional values of a point are not applied exactly once each next to the main value (not a range loop over insert.moreVals dominated by the main update)")
		}
		// loop nesting: the update (or the single call of the helper containing it) sits directly in the select loop
		nest := len(loopsContaining(ap, up.Block()))
		if ap != pi {
			cs := callSitesOf(c.P, ap)
			nest = -1
			if len(cs) == 1 && len(loopsContaining(ap, up.Block())) == 0 {
				nest = len(loopsContaining(pi, cs[0].Block()))
			}
		}
		c.check(rule, "processInserts: Tree.Update not in an inner loop", up.Pos(), nest == 1, "only the select loop contains it", "Tree.Update is nested in an inner loop (or its helper is called from several places): a point can be applied several times")
		guarded := false
		for _, g := range guardsOf(up.Block()) {
			if x, nn, ok := nilTest(g); ok && nn && isFieldLoad(x, "z.insert.key") {
				guarded = true
			}
		}
		c.check(rule, "processInserts: Tree.Update guarded by insert.key != nil", up.Pos(), guarded, "the update is applied exactly when the entry carries a key (non-nil), skip entries (nil key) only advance the offset", "the guard of Tree.Update is not the exact test insert.key != nil: points with an empty (but non-nil) group key — no group-by dimension present — would be dropped, or skip entries would be applied")
		var mu ssa.Instruction
		for _, in := range instrs(ap) {
			if m, ok := in.(*ssa.MapUpdate); ok && isFieldLoad(m.Map, "z.memstore.offsetsBySource") {
				mu = in
			}
		}
		c.check(rule, "processInserts: offset recorded for every insert", up.Pos(), mu != nil && instrDominates(mu, up), "ms.offsetsBySource[source] = offset precedes the key test", "the offset of an insert is not recorded unconditionally before the row is applied")
	}
	ruleOneInsertPerPoint(c, rule)
}

// ruleOneInsertPerPoint: a WAL entry becomes exactly one row store insert (C01.a, C02.k).
func ruleOneInsertPerPoint(c *Ctx, rule string) {
	if di := c.need(rule, "(*z.table).doInsert"); di != nil {
		var ins []ssa.CallInstruction
		for _, f := range withHelpers(c.P, di) {
			ins = append(ins, callsTo(f, "(*z.rowStore).insert")...)
		}
		if !c.check(rule, "doInsert: one rowStore.insert call site", di.Pos(), len(ins) == 1, "a point (with all its values) is handed to the row store once", "found "+itoa(len(ins))+" rowStore.insert call sites (expected 1): a duplicated call double-counts every point, a missing one loses it") {
			return
		}
		var outside ssa.CallInstruction
		if len(loopsContaining(ins[0].Parent(), ins[0].Block())) == 0 {
			outside = ins[0]
		}
		c.check(rule, "doInsert: one row store insert per point", ins[0].Pos(), outside != nil, "the call is outside any loop: one insert carries the point's offset and all its values", "rowStore.insert is called in a loop: one WAL entry becomes several row store inserts with the same offset, and a flush between them persists the offset with only part of the point's values (lost for good after a kill)")
		if outside != nil {
			g := false
			for _, a := range guardsOf(outside.Block()) {
				if a.pos {
					// hasMainValue: a bool loaded from a cell that closures set to true
					if u, ok := a.v.(*ssa.UnOp); ok && u.Op == token.MUL {
						for _, st := range cellStores(di, cellRoot(u.X)) {
							if b, isC := constBool(st.Val); isC && b {
								g = true
							}
						}
					}
				}
			}
			c.check(rule, "doInsert: main insert only if a main value exists", outside.Pos(), g, "guarded by hasMainValue", "the main rowStore.insert is not guarded by hasMainValue: points without numeric values create empty rows (or valid ones are lost)")
		}
	}
}

// firstBlockOfCase: helper for "same select case": returns mu's block if it
// dominates up's block and no loop header lies between them; else nil.
func firstBlockOfCase(up ssa.Instruction, mu ssa.Instruction) *ssa.BasicBlock {
	if mu.Block().Dominates(up.Block()) {
		return mu.Block()
	}
	return nil
}

func ruleC01b(c *Ctx, rule string) {
	c.describe(rule, "dom (edge-reachability): points older than truncateBefore(), points of another partition (followers) and points rejected by the table's WHERE cannot reach the store — the rejecting edge of each filter cannot reach doInsert / rowStore.insert")
	if ti := c.need(rule, "(*z.table).insert"); ti != nil {
		dis := asInstrs(callsTo(ti, "(*z.table).doInsert"))
		c.floor(rule, "doInsert call in (*table).insert", len(dis), 1)
		old := findIfs(ti, func(v ssa.Value) bool {
			call, ok := v.(*ssa.Call)
			return ok && isCall(call, "(time.Time).Before") && isCallValue(call.Call.Args[1], "(*z.table).truncateBefore")
		})
		if len(old) == 0 {
			c.bad(rule, "insert: too-old points are rejected", ti.Pos(), "no test ts.Before(t.truncateBefore()) found: points older than the retention period are stored")
		}
		for _, ci := range old {
			ok := edgeCannotReach(ci, true, dis) && !edgeCannotReach(ci, false, dis)
			c.check(rule, "insert: too-old points are rejected", ci.i.Pos(), ok, "ts.Before(truncateBefore())==true cannot reach doInsert, ==false can", "the retention filter on ingest does not keep expired points out (or rejects everything)")
		}
		part := findIfs(ti, func(v ssa.Value) bool {
			call, ok := v.(*ssa.Call)
			return ok && isCall(call, "(*z.DB).inPartition")
		})
		if len(part) == 0 {
			c.bad(rule, "insert: followers keep only their partition", ti.Pos(), "no inPartition test found in (*table).insert")
		}
		for _, ci := range part {
			ok := edgeCannotReach(ci, false, dis) && !edgeCannotReach(ci, true, dis)
			c.check(rule, "insert: followers keep only their partition", ci.i.Pos(), ok, "inPartition()==false cannot reach doInsert", "a point that is not in the follower's partition can reach doInsert (or in-partition points cannot)")
			// and the test applies under isFollower
			fo := false
			for _, g := range guardsOf(ci.i.Block()) {
				if p, isP := g.v.(*ssa.Parameter); isP && g.pos && p.Name() == "isFollower" {
					fo = true
				}
			}
			if !fo {
				// isFollower && !inPartition lowers to nested ifs: the inPartition block is entered only via isFollower==true
				for _, pr := range ci.i.Block().Preds {
					if i2 := ifOf(pr); i2 != nil {
						if p, isP := i2.Cond.(*ssa.Parameter); isP && pr.Succs[0] == ci.i.Block() && typeStr(p.Type()) == "bool" {
							fo = true
						}
					}
				}
			}
			c.check(rule, "insert: partition filter applies to followers", ci.i.Pos(), fo, "evaluated under isFollower", "the partition filter is not conditioned on isFollower")
		}
		// … and to every entry a follower receives: no path with isFollower==true reaches doInsert around the test
		if len(part) > 0 {
			okAll := true
			badPath := ""
			for _, d := range dis {
				_, complete := pathsTo(ti.Blocks[0], d.Block(), func(p pathAtoms) bool {
					follower := p.has(func(a atom) bool {
						pr, isP := a.v.(*ssa.Parameter)
						return isP && a.pos && typeStr(pr.Type()) == "bool"
					})
					if !follower {
						return true
					}
					for _, pb := range p.blocks {
						for _, ci := range part {
							if pb == ci.i.Block() {
								return true
							}
						}
					}
					okAll = false
					var bs []string
					for _, pb := range p.blocks {
						bs = append(bs, "b"+itoa(pb.Index))
					}
					badPath = strings.Join(bs, ">")
					return false
				})
				if !complete && okAll {
					okAll = false
					badPath = "path enumeration incomplete"
				}
			}
			c.check(rule, "insert: every follower entry passes the partition filter", part[0].i.Pos(), okAll, "no path with isFollower==true reaches doInsert around inPartition", "a follower can store an entry without the partition test (path "+badPath+"): a table whose partition keys differ from those the entry was routed by (e.g. a table without PartitionBy on a stream that also feeds a keyed table) stores points that belong to other partitions — they are then counted on several partitions")
		}
	}
	if di := c.need(rule, "(*z.table).doInsert"); di != nil {
		ins := asInstrs(callsTo(di, "(*z.rowStore).insert"))
		wh := findIfs(di, func(v ssa.Value) bool {
			// where.Eval(dims).(bool)
			ta, ok := v.(*ssa.TypeAssert)
			if !ok {
				return false
			}
			call, ok := ta.X.(*ssa.Call)
			return ok && calleeName(call) == "invoke (github.com/getlantern/goexpr.Expr).Eval"
		})
		if len(wh) == 0 {
			c.bad(rule, "doInsert: WHERE-rejected points are not stored", di.Pos(), "no test of where.Eval(dims) found in doInsert")
		}
		for _, ci := range wh {
			ok := edgeCannotReach(ci, false, ins) && !edgeCannotReach(ci, true, ins)
			c.check(rule, "doInsert: WHERE-rejected points are not stored", ci.i.Pos(), ok, "where.Eval(dims)==false cannot reach rowStore.insert, ==true can", "a point rejected by the table's WHERE can reach rowStore.insert (or accepted points cannot)")
			// the evaluated expression is the table's current where (getWhere) on the point's dims
			ta := ci.v.(*ssa.TypeAssert)
			call := ta.X.(*ssa.Call)
			okW := isCallValue(call.Call.Value, "(*z.table).getWhere")
			c.check(rule, "doInsert: the filter is the table's own WHERE", call.Pos(), okW, "where comes from t.getWhere()", "the predicate evaluated on ingest is not the table's current WHERE")
		}
	}
}

func ruleC01c(c *Ctx, rule string) {
	c.describe(rule, "flow: in Sequence.UpdateValue the timestamp parameter is used only as argument 0 of encoding.RoundTimeUp (the period a point is counted in is the smallest multiple of the resolution >= ts); RoundTimeDown or a raw use is a violation")
	fn := c.need(rule, "(z/encoding.Sequence).UpdateValue")
	if fn == nil {
		return
	}
	var ts *ssa.Parameter
	for _, p := range fn.Params {
		if typeStr(p.Type()) == "time.Time" && ts == nil {
			ts = p
		}
	}
	if ts == nil {
		c.undecided(rule, "UpdateValue ts parameter", fn.Pos(), "no time.Time parameter")
		return
	}
	ok := true
	n := 0
	var badUse string
	for _, r := range liveReferrers(ts) {
		n++
		call, isCall_ := r.(*ssa.Call)
		if !isCall_ || !isCall(call, "z/encoding.RoundTimeUp") || call.Call.Args[0] != ssa.Value(ts) {
			ok = false
			badUse = c.P.Pos(r.Pos())
		}
	}
	c.check(rule, "UpdateValue rounds the timestamp up", fn.Pos(), ok && n > 0, "every use of ts is RoundTimeUp(ts, resolution)", "the raw timestamp of a point is used other than through RoundTimeUp (at "+badUse+"): the point is counted in the wrong period")
	// UpdateValueAt(0…) / offset arithmetic is value-level and not decided here
}

func ruleC01d(c *Ctx, rule string) {
	c.describe(rule, "modsum: nothing stored aliases the recycled WAL read buffer — in (*table).insert no argument of doInsert has the 'data' parameter among its origins (dims/vals are copied), because processInserts returns the buffer to the pool right after")
	ti := c.need(rule, "(*z.table).insert")
	if ti == nil {
		return
	}
	m := getModsum(c)
	og := m.localOrigins(ti)
	dataIdx := -1
	for i, p := range ti.Params {
		if isByteSlice(p.Type()) {
			dataIdx = i
			break
		}
	}
	if dataIdx < 0 {
		c.undecided(rule, "insert data parameter", ti.Pos(), "no []byte parameter")
		return
	}
	for _, call := range callsTo(ti, "(*z.table).doInsert") {
		ok := true
		for _, a := range call.Common().Args {
			if !tracked(a.Type()) {
				continue
			}
			o := og[a]
			if p, isP := a.(*ssa.Parameter); isP {
				for i, q := range ti.Params {
					if q == p {
						o = pbit(i)
					}
				}
			}
			if o&pbit(dataIdx) != 0 || o&bitOther != 0 {
				ok = false
			}
		}
		c.check(rule, "insert copies dims/vals out of the WAL buffer", call.Pos(), ok, "all slice arguments of doInsert are fresh copies", "doInsert receives a slice that aliases the WAL read buffer (parameter data): keys/values stored in the memstore change when the buffer is reused for the next entry")
	}
	// and the buffer really is recycled after insert (otherwise the rule is moot, not wrong)
}

func init() {
	register(&PropSpec{
		ID:          "C01",
		Explanation: "Decides the ingest wiring clause: one memstore update per accepted WAL entry (exact nil-key test), the three filters (retention, partition, WHERE) precede the store on every path, the period index comes from RoundTimeUp, nothing stored aliases the recycled WAL buffer, and a rejected entry still advances the offset. Added clauses: one row store insert per WAL entry with all values of an array-valued point applied next to the main value in one lock region; closures run twice by bytemap.Build do not accumulate (known finding K5); every follower entry passes the table's own partition test; = C10.c and the sorted-flush buffer-reuse clause of C03.b. Further clauses: every sized expression's Update/Merge hands back the buffer advanced; file store and memstore copy are captured in one critical section (= C18.b).",
		NotDecided:  []string{"numerical equality with a reference aggregator", "expression arithmetic and value coercions", "Sequence.UpdateValue offset arithmetic and Merge alignment (values)"},
		Assumptions: []string{"go/ssa models control flow", "modsum external tables"},
		Rules: []func(*Ctx){func(c *Ctx) { ruleC01a(c, "C01.a") }, func(c *Ctx) { ruleC01b(c, "C01.b") }, func(c *Ctx) { ruleC01c(c, "C01.c") }, func(c *Ctx) { ruleC01d(c, "C01.d") }, func(c *Ctx) { ruleC01f(c, "C01.f") }, func(c *Ctx) { ruleExprAdvances(c, "C01.h") }, func(c *Ctx) {
			c.describe("C01.j", "= C17.h: a query coalesced with others is offered every row and the shared scan goes on while any of them wants more")
			ruleC17h(c, "C01.j")
		}, func(c *Ctx) {
			c.describe("C01.i", "= C18.b lock regions: file store and memstore copy are captured in one critical section, so a flush cannot make a scan count a point twice")
			ruleLockRegions(c, "C01.i")
		}, func(c *Ctx) {
			c.describe("C01.g", "= C10.c / C03.b: on a cluster a point is stored by the follower that owns it (same keys, same order on both sides); a sorted flush never reuses the read buffer for rows its sorter retains")
			ruleC10c(c, "C01.g")
			ruleC03b(c, "C01.g")
		}, func(c *Ctx) {
			c.describe("C01.e", "dom: a rejected entry still advances the offset (t.skip)")
			ruleSkipOnReject(c, "C01.e")
		}},
	})
}

// ruleC01f: bytemap.Build(iterate, _, iteratesSorted=true) runs its iterate
// callback twice (once to size the map, once to fill it). A callback that
// accumulates into captured state therefore accumulates twice.
func ruleC01f(c *Ctx, rule string) {
	c.describe(rule, "flow: every closure handed to bytemap.Build with iteratesSorted=true is idempotent — it is run twice (sizing pass, filling pass), so it may set captured variables to values that do not depend on their previous content, but not accumulate into them (append, +=)")
	n := 0
	perTop := map[*ssa.Function]int{}
	for _, fn := range c.P.ModFns {
		if strings.HasPrefix(pkgOf(fn), "z/cmd") || strings.HasPrefix(pkgOf(fn), "z/testsupport") {
			continue
		}
		for _, call := range callsTo(fn, "github.com/getlantern/bytemap.Build") {
			a := call.Common().Args
			if len(a) != 3 {
				continue
			}
			if twice, isC := constBool(a[2]); isC && !twice {
				continue
			}
			mc, ok := a[0].(*ssa.MakeClosure)
			if !ok {
				continue // a function value passed through: its body is checked where it is built
			}
			cb := mc.Fn.(*ssa.Function)
			n++
			c.touch(cb)
			top := fn
			for top.Parent() != nil {
				top = top.Parent()
			}
			found := false
			for _, f := range withAnon(cb) {
				for _, in := range instrs(f) {
					st, isSt := in.(*ssa.Store)
					if !isSt {
						continue
					}
					cell := cellRoot(st.Addr)
					al, isAl := cell.(*ssa.Alloc)
					if !isAl || al.Parent() == f || isWithin(al.Parent(), cb) {
						continue // a variable of the callback itself: fresh on every run
					}
					if resetAtStart(cb, cell) {
						continue // emptied at the start of every run: what it collects is per run
					}
					// accumulation: the stored value depends on a load of the same cell
					if dependsOn(st.Val, func(v ssa.Value) bool {
						u, ok := v.(*ssa.UnOp)
						return ok && u.Op == token.MUL && cellRoot(u.X) == cell
					}) {
						found = true
						c.bad(rule, stableName(top)+": "+al.Comment+" accumulated inside a bytemap.Build callback", st.Pos(), "the callback passed to bytemap.Build (iteratesSorted=true) is run twice; it appends to / accumulates into the captured variable '"+al.Comment+"', so everything it collects is collected twice — every array value after the first is inserted, and counted in _points, twice")
					}
				}
			}
			if !found {
				perTop[top]++
				c.ok(rule, stableName(top)+": idempotent bytemap.Build callback #"+itoa(perTop[top]), call.Pos(), "no captured variable is accumulated into")
			}
		}
	}
	c.floor(rule, "bytemap.Build callbacks", n, 3)
}

// isWithin: f is g or nested (transitively) in g.
func isWithin(f, g *ssa.Function) bool {
	for ; f != nil; f = f.Parent() {
		if f == g {
			return true
		}
	}
	return false
}

// resetAtStart: the callback's entry block stores to the captured cell a value
// that carries none of its previous content (nil, a constant, a fresh make, or
// x[:0]).
func resetAtStart(cb *ssa.Function, cell ssa.Value) bool {
	if len(cb.Blocks) == 0 {
		return false
	}
	for _, in := range cb.Blocks[0].Instrs {
		st, ok := in.(*ssa.Store)
		if !ok || cellRoot(st.Addr) != cell {
			continue
		}
		switch v := st.Val.(type) {
		case *ssa.Const, *ssa.MakeSlice, *ssa.MakeMap:
			return true
		case *ssa.Slice:
			if k, isK := constInt(v.High); isK && k == 0 && v.Low == nil {
				return true
			}
		}
	}
	return false
}

// ruleExprAdvances: an accumulator-walking method of an expression consumes
// exactly its own slot of the row buffer on every path.
func ruleExprAdvances(c *Ctx, rule string) {
	c.describe(rule, "flow: for every expression type in package expr whose EncodedWidth is not constantly 0, Update (and Merge for its destination) never returns the buffer it was given unadvanced — on every return the first result is a re-slice of the parameter, the remainder handed back by a wrapped expression, or the result of save(); an operator that leaves the buffer where it was makes the next operand of an arithmetic expression overwrite its slot")
	type meth struct {
		name string
		idx  []int // which results mirror which params (result i must not be raw param idx[i])
	}
	n := 0
	var names []string
	byName := map[string]*ssa.Function{}
	for fn := range c.P.AllFns {
		if fn.Signature.Recv() == nil || fn.Synthetic != "" || len(fn.Blocks) == 0 || pkgOf(fn) != "z/expr" {
			continue
		}
		if fn.Name() != "Update" && fn.Name() != "Merge" {
			continue
		}
		nm := stableName(fn)
		if _, dup := byName[nm]; !dup {
			byName[nm] = fn
			names = append(names, nm)
		}
	}
	sort.Strings(names)
	for _, nm := range names {
		fn := byName[nm]
		// EncodedWidth of the same receiver type
		recv := fn.Signature.Recv().Type()
		var ew *ssa.Function
		for g := range c.P.AllFns {
			if g.Name() == "EncodedWidth" && g.Signature.Recv() != nil && types.Identical(g.Signature.Recv().Type(), recv) && g.Synthetic == "" {
				ew = g
			}
		}
		zeroWidth := ew != nil
		if ew != nil {
			for _, in := range instrs(ew) {
				if r, ok := in.(*ssa.Return); ok {
					if k, isK := constInt(r.Results[0]); !isK || k != 0 {
						zeroWidth = false
					}
				}
			}
		}
		if zeroWidth {
			continue
		}
		var bp *ssa.Parameter
		for _, p := range fn.Params[1:] {
			if isByteSlice(p.Type()) {
				bp = p
				break
			}
		}
		if bp == nil {
			continue
		}
		n++
		c.touch(fn)
		bad := ""
		for _, in := range instrs(fn) {
			r, ok := in.(*ssa.Return)
			if !ok || len(r.Results) == 0 {
				continue
			}
			for _, leaf := range phiLeaves(r.Results[0]) {
				if strip(leaf) == ssa.Value(bp) {
					bad = c.P.Pos(r.Pos())
				}
			}
		}
		c.check(rule, nm+" advances the buffer", fn.Pos(), bad == "", "no return hands back the buffer parameter itself", "a return (at "+bad+") hands back the accumulator buffer unadvanced although the expression occupies a slot of non-zero width: the next operand of an enclosing expression writes into this operand's slot (e.g. IF(cond, SUM(a)) - SUM(b) when the condition excludes the point)")
	}
	c.floor(rule, "Update/Merge methods of sized expressions", n, 10)
}
