package main

import (
	"go/token"
	"go/types"
	"sort"
	"strings"

	"golang.org/x/tools/go/ssa"
)

// C20 — data crossing the RPC boundary keeps its meaning (codec tables).

// registeredExts: every msgpack.RegisterExt call in the whole program.
type extReg struct {
	id   int64
	typ  types.Type // the pointer type registered
	pos  token.Pos
	fn   *ssa.Function
	okID bool
}

func findRegisterExt(c *Ctx) []extReg {
	var out []extReg
	for fn := range c.P.AllFns {
		if len(fn.Blocks) == 0 {
			continue
		}
		for _, call := range calls(fn) {
			if calleeName(call) != "github.com/getlantern/msgpack.RegisterExt" {
				continue
			}
			a := call.Common().Args
			if len(a) != 2 {
				continue
			}
			r := extReg{pos: call.Pos(), fn: fn}
			r.id, r.okID = constInt(a[0])
			if mi, ok := a[1].(*ssa.MakeInterface); ok {
				r.typ = mi.X.Type()
			}
			out = append(out, r)
		}
	}
	sort.Slice(out, func(i, j int) bool { return out[i].pos < out[j].pos })
	return out
}

func implementors(c *Ctx, pkgPath string, iface *types.Interface) []*types.Named {
	sp := c.P.ByPath[pkgPath]
	if sp == nil {
		return nil
	}
	var out []*types.Named
	sc := sp.Pkg.Scope()
	for _, n := range sc.Names() {
		tn, ok := sc.Lookup(n).(*types.TypeName)
		if !ok || tn.IsAlias() {
			continue
		}
		named, ok := tn.Type().(*types.Named)
		if !ok {
			continue
		}
		if _, isI := named.Underlying().(*types.Interface); isI {
			continue
		}
		if types.Implements(named, iface) || types.Implements(types.NewPointer(named), iface) {
			out = append(out, named)
		}
	}
	return out
}

func ruleC20a(c *Ctx) {
	const rule = "C20.a"
	c.describe(rule, "reg: every concrete type implementing expr.Expr is registered with msgpack.RegisterExt exactly once under a unique id; every concrete goexpr.Expr type that sql's function tables can construct is registered somewhere in the program")
	exprN := c.P.Named("z/expr", "Expr")
	if exprN == nil {
		c.undecided(rule, "anchor z/expr.Expr", token.NoPos, "interface not found")
		return
	}
	iface := exprN.Underlying().(*types.Interface)
	regs := findRegisterExt(c)
	byType := map[string][]extReg{}
	byID := map[int64][]extReg{}
	for _, r := range regs {
		if r.typ == nil || !r.okID {
			c.undecided(rule, "RegisterExt call with non-constant id or type", r.pos, "cannot evaluate this registration statically")
			continue
		}
		byType[typeStr(r.typ)] = append(byType[typeStr(r.typ)], r)
		byID[r.id] = append(byID[r.id], r)
	}
	for id, rs := range byID {
		if len(rs) > 1 {
			var ts []string
			for _, r := range rs {
				ts = append(ts, typeStr(r.typ))
			}
			c.bad(rule, "ext id "+itoa(int(id))+" unique", rs[1].pos, "msgpack extension id "+itoa(int(id))+" is registered for several types ("+strings.Join(ts, ", ")+"): the later registration shadows the earlier and values decode as the wrong type")
		}
	}
	impls := implementors(c, modPath+"/expr", iface)
	c.floor(rule, "concrete implementations of expr.Expr", len(impls), 11)
	for _, n := range impls {
		key := "*" + typeStr(n)
		rs := byType[key]
		inst := "expr.Expr implementation " + typeStr(n) + " registered"
		if len(rs) == 1 {
			c.ok(rule, inst, rs[0].pos, "registered once with id "+itoa(int(rs[0].id)))
		} else if len(rs) == 0 {
			c.bad(rule, inst, n.Obj().Pos(), "type implements expr.Expr but is never passed to msgpack.RegisterExt: a field using it cannot be decoded by the peer (fields/exprs travel inside QueryMetaData and RemoteQueryResult)")
		} else {
			c.bad(rule, inst, rs[1].pos, "registered "+itoa(len(rs))+" times")
		}
	}
	// goexpr types constructed from sql
	gx := c.P.ExtNamed("github.com/getlantern/goexpr", "Expr")
	if gx == nil {
		c.undecided(rule, "anchor goexpr.Expr", token.NoPos, "interface not found")
		return
	}
	gi := gx.Underlying().(*types.Interface)
	// functions reachable by static calls (and function values) from package sql, within sql/goexpr/redis-utils
	seen := map[*ssa.Function]bool{}
	var stack []*ssa.Function
	okPkg := func(f *ssa.Function) bool {
		for f.Parent() != nil {
			f = f.Parent()
		}
		if f.Pkg == nil {
			return false
		}
		p := f.Pkg.Pkg.Path()
		return p == modPath+"/sql" || p == "github.com/getlantern/goexpr" || strings.HasPrefix(p, "github.com/getlantern/goexpr/") || strings.HasPrefix(p, "github.com/getlantern/redis-utils")
	}
	push := func(f *ssa.Function) {
		if f != nil && !seen[f] && len(f.Blocks) > 0 && okPkg(f) {
			seen[f] = true
			stack = append(stack, f)
		}
	}
	for _, fn := range c.P.ModFns {
		if pkgOf(fn) == "z/sql" {
			push(fn)
		}
	}
	push(c.P.Func("z/sql.init")) // the function tables (synthetic package initialiser)
	constructed := map[string]token.Pos{}
	for len(stack) > 0 {
		f := stack[len(stack)-1]
		stack = stack[:len(stack)-1]
		for _, a := range f.AnonFuncs {
			push(a)
		}
		for _, in := range instrs(f) {
			for _, op := range in.Operands(nil) {
				if g, ok := (*op).(*ssa.Function); ok {
					push(g)
				}
			}
			if call, ok := in.(ssa.CallInstruction); ok {
				push(call.Common().StaticCallee())
			}
			if mi, ok := in.(*ssa.MakeInterface); ok {
				t := mi.X.Type()
				if types.Implements(t, gi) {
					if _, isIface := t.Underlying().(*types.Interface); !isIface {
						if _, have := constructed[typeStr(t)]; !have {
							constructed[typeStr(t)] = mi.Pos()
						}
					}
				}
			}
		}
	}
	var cts []string
	for t := range constructed {
		cts = append(cts, t)
	}
	sort.Strings(cts)
	c.floor(rule, "goexpr.Expr types constructible from sql", len(cts), 8)
	for _, t := range cts {
		inst := "goexpr.Expr type " + t + " registered"
		if len(byType[t]) >= 1 {
			c.ok(rule, inst, byType[t][0].pos, "registered with id "+itoa(int(byType[t][0].id)))
		} else {
			c.bad(rule, inst, constructed[t], "a goexpr.Expr of this type can be built from SQL (constructed on a path from package sql) but the type is never registered with msgpack: a table/field whose expression contains it marshals, and the peer's unmarshal fails")
		}
	}
}

var behaviouralMethods = []string{"Update", "Merge", "SubMergers", "Get", "EncodedWidth", "Shift", "IsConstant", "String"}

// fieldsReadBy: fields of the receiver struct read (FieldAddr/Field on the
// receiver) by method m of *T, transitively through static calls passing the
// same receiver.
func fieldsReadBy(c *Ctx, T *types.Named, m *ssa.Function, acc map[string]token.Pos, seen map[*ssa.Function]bool) {
	if m == nil || seen[m] || len(m.Blocks) == 0 || len(m.Params) == 0 {
		return
	}
	seen[m] = true
	c.touch(m)
	recv := m.Params[0]
	isRecv := func(v ssa.Value) bool { return strip(v) == ssa.Value(recv) }
	for _, in := range instrs(m) {
		switch x := in.(type) {
		case *ssa.FieldAddr:
			if isRecv(x.X) {
				if f := fieldVar(x.X.Type(), x.Field); f != nil {
					if _, have := acc[f.Name()]; !have {
						acc[f.Name()] = x.Pos()
					}
				}
			}
		case *ssa.Field:
			if isRecv(x.X) {
				if f := fieldVar(x.X.Type(), x.Field); f != nil {
					if _, have := acc[f.Name()]; !have {
						acc[f.Name()] = x.Pos()
					}
				}
			}
		case ssa.CallInstruction:
			sc := x.Common().StaticCallee()
			if sc != nil && len(x.Common().Args) > 0 && isRecv(x.Common().Args[0]) && sc.Signature.Recv() != nil {
				fieldsReadBy(c, T, sc, acc, seen)
			}
		}
	}
	// closures capturing the receiver
	for _, a := range m.AnonFuncs {
		for i, fv := range a.FreeVars {
			_ = i
			for _, in := range instrs(a) {
				if fa, ok := in.(*ssa.FieldAddr); ok && strip(fa.X) == ssa.Value(fv) && types.Identical(fv.Type(), recv.Type()) {
					if f := fieldVar(fa.X.Type(), fa.Field); f != nil {
						if _, have := acc[f.Name()]; !have {
							acc[f.Name()] = fa.Pos()
						}
					}
				}
			}
		}
	}
}

func methodOf(c *Ctx, T *types.Named, name string) *ssa.Function {
	for _, recv := range []types.Type{types.NewPointer(T), T} {
		ms := c.P.SSA.MethodSets.MethodSet(recv)
		for i := 0; i < ms.Len(); i++ {
			if ms.At(i).Obj().Name() == name {
				fn := c.P.SSA.MethodValue(ms.At(i))
				if fn != nil && fn.Synthetic == "" {
					return fn
				}
				// promoted through embedding: not a method on T itself
				return nil
			}
		}
	}
	return nil
}

func ruleC20b(c *Ctx) {
	const rule = "C20.b"
	c.describe(rule, "reg: for every registered expr type, each struct field its behavioural methods (Update/Merge/SubMergers/Get/EncodedWidth/Shift/IsConstant/String) read is restored on decode: exported and default-coded, or assigned in the type's DecodeMsgpack; map keys read by a custom decoder name exported fields the default encoder writes")
	exprN := c.P.Named("z/expr", "Expr")
	if exprN == nil {
		return
	}
	impls := implementors(c, modPath+"/expr", exprN.Underlying().(*types.Interface))
	n := 0
	for _, T := range impls {
		st, ok := T.Underlying().(*types.Struct)
		if !ok {
			continue
		}
		read := map[string]token.Pos{}
		for _, mn := range behaviouralMethods {
			fieldsReadBy(c, T, methodOf(c, T, mn), read, map[*ssa.Function]bool{})
		}
		dec := methodOf(c, T, "DecodeMsgpack")
		enc := methodOf(c, T, "EncodeMsgpack")
		restored := map[string]bool{}
		if dec != nil {
			c.touch(dec)
			recv := dec.Params[0]
			for _, in := range instrs(dec) {
				switch x := in.(type) {
				case *ssa.Store:
					if fa, ok := x.Addr.(*ssa.FieldAddr); ok && strip(fa.X) == ssa.Value(recv) {
						if f := fieldVar(fa.X.Type(), fa.Field); f != nil {
							restored[f.Name()] = true
						}
					}
				case *ssa.FieldAddr:
					// &e.f passed to dec.Decode (boxed into the variadic slice)
					if strip(x.X) == ssa.Value(recv) {
						for _, r := range *x.Referrers() {
							if _, ok := r.(*ssa.MakeInterface); ok {
								if f := fieldVar(x.X.Type(), x.Field); f != nil {
									restored[f.Name()] = true
								}
							}
						}
					}
				}
			}
		}
		var names []string
		for f := range read {
			names = append(names, f)
		}
		sort.Strings(names)
		for _, f := range names {
			n++
			var fv *types.Var
			for i := 0; i < st.NumFields(); i++ {
				if st.Field(i).Name() == f {
					fv = st.Field(i)
				}
			}
			inst := typeStr(T) + "." + f + " restored on decode"
			switch {
			case dec != nil && restored[f]:
				c.ok(rule, inst, read[f], "assigned in DecodeMsgpack")
			case dec != nil:
				c.bad(rule, inst, read[f], "field is read by a behavioural method but the type's custom DecodeMsgpack never assigns it: the decoded expression behaves differently from the original (zero value / nil function)")
			case fv != nil && (fv.Exported() || fv.Embedded()) && enc == nil:
				c.ok(rule, inst, read[f], "exported (or embedded) field, default struct codec on both sides")
			default:
				c.bad(rule, inst, read[f], "unexported field read by a behavioural method and no custom decoder restores it: it is not transmitted by msgpack's default struct codec")
			}
		}
		// custom decoder reading a map: keys must be exported field names (what the default encoder writes)
		if dec != nil && enc == nil {
			for _, in := range instrs(dec) {
				lk, ok := in.(*ssa.Lookup)
				if !ok {
					continue
				}
				k, isC := constString(lk.Index)
				if !isC {
					continue
				}
				n++
				found := false
				for i := 0; i < st.NumFields(); i++ {
					if st.Field(i).Name() == k && st.Field(i).Exported() {
						found = true
					}
				}
				c.check(rule, typeStr(T)+" decoder key \""+k+"\" is an exported field", lk.Pos(), found, "the default encoder writes this key", "DecodeMsgpack reads map key \""+k+"\" but "+typeStr(T)+" has no exported field of that name: the default encoder never writes it and the lookup yields nil")
			}
		}
	}
	c.floor(rule, "behavioural field obligations", n, 25)
	// function-valued fields restored from the registry the constructor reads
	for _, spec := range []struct{ typ, ctor, field string }{
		{"z/expr.aggregate", "z/expr.aggregateFor", "update"},
		{"z/expr.aggregate", "z/expr.aggregateFor", "merge"},
		{"z/expr.binaryExpr", "z/expr.binaryExprFor", "calc"},
	} {
		T := c.P.Named("z/expr", strings.TrimPrefix(spec.typ, "z/expr."))
		if T == nil {
			c.undecided(rule, "anchor "+spec.typ, token.NoPos, "type not found")
			continue
		}
		dec := methodOf(c, T, "DecodeMsgpack")
		ok := false
		var pos token.Pos
		if dec != nil {
			pos = dec.Pos()
			for _, st := range fieldStores(dec, spec.typ+"."+spec.field) {
				// stored value is a load of the same field of the constructor's result
				if b, f, isF := fieldOf(strip(st.Val)); isF && f != nil && f.Name() == spec.field {
					if call, isCall := strip(b).(*ssa.Call); isCall && calleeName(call) == spec.ctor {
						ok = true
					}
				}
			}
		}
		c.check(rule, spec.typ+"."+spec.field+" restored from "+spec.ctor, pos, ok, "the decoder takes the function from the constructor's registry lookup by the transmitted name", "the function-valued field is not restored from the same constructor/registry the original was built with")
	}
}

func ruleC20c(c *Ctx) {
	const rule = "C20.c"
	c.describe(rule, "reg: for a type with both EncodeMsgpack and DecodeMsgpack the sequence of fields passed to enc.Encode equals the sequence of field addresses passed to dec.Decode")
	exprN := c.P.Named("z/expr", "Expr")
	if exprN == nil {
		return
	}
	n := 0
	for _, T := range implementors(c, modPath+"/expr", exprN.Underlying().(*types.Interface)) {
		enc, dec := methodOf(c, T, "EncodeMsgpack"), methodOf(c, T, "DecodeMsgpack")
		if enc == nil && dec == nil {
			continue
		}
		if enc == nil {
			continue // covered by C20.b's map-key rule
		}
		if dec == nil {
			c.bad(rule, typeStr(T)+" has EncodeMsgpack without DecodeMsgpack", enc.Pos(), "custom wire format with no matching decoder")
			continue
		}
		n++
		seq := func(fn *ssa.Function, callee string, addr bool) []string {
			var out []string
			for _, call := range callsTo(fn, callee) {
				// variadic: args[1] is a slice built from an Alloc array; collect stores into it in order
				for _, in := range instrs(fn) {
					st, ok := in.(*ssa.Store)
					if !ok {
						continue
					}
					ia, ok := st.Addr.(*ssa.IndexAddr)
					if !ok {
						continue
					}
					_ = call
					v := strip(st.Val)
					idx, _ := constInt(ia.Index)
					name := "?"
					if addr {
						if fa, ok := v.(*ssa.FieldAddr); ok {
							if f := fieldVar(fa.X.Type(), fa.Field); f != nil {
								name = f.Name()
							}
						}
					} else {
						if _, f, ok := fieldOf(v); ok && f != nil {
							name = f.Name()
						}
					}
					for int(idx) >= len(out) {
						out = append(out, "")
					}
					out[idx] = name
				}
			}
			return out
		}
		es := seq(enc, "(*github.com/getlantern/msgpack.Encoder).Encode", false)
		ds := seq(dec, "(*github.com/getlantern/msgpack.Decoder).Decode", true)
		same := len(es) > 0 && len(es) == len(ds)
		for i := range es {
			if i < len(ds) && (es[i] != ds[i] || es[i] == "?" || es[i] == "") {
				same = false
			}
		}
		c.check(rule, typeStr(T)+" Encode/Decode field order", enc.Pos(), same, "enc.Encode("+strings.Join(es, ", ")+") mirrors dec.Decode(&"+strings.Join(ds, ", &")+")", "EncodeMsgpack writes ("+strings.Join(es, ", ")+") but DecodeMsgpack reads into ("+strings.Join(ds, ", ")+"): the peer assigns values to the wrong fields")
	}
	c.floor(rule, "types with custom encoder+decoder", n, 1)
}

var c20UnexportedOK = map[string]string{
	"z/core.FlatRow.fields": "restored by the receiver: queryCluster calls flatRow.SetFields(fieldsByPartition[...]) before handing a received row on (checked below)",
}

func ruleC20d(c *Ctx) {
	const rule = "C20.d"
	c.describe(rule, "reg: every module struct type that crosses stream.SendMsg/RecvMsg (transitively through fields) has only exported fields, except the reviewed FlatRow.fields which the receiver restores (dom: SetFields precedes onFlatRow in queryCluster)")
	roots := map[string]*types.Named{}
	for _, fn := range c.P.ModFns {
		p := pkgOf(fn)
		if p != "z/rpc" && p != "z/rpc/server" {
			continue
		}
		for _, call := range calls(fn) {
			cn := calleeName(call)
			if !strings.HasSuffix(cn, ".SendMsg") && !strings.HasSuffix(cn, ".RecvMsg") {
				continue
			}
			for _, a := range call.Common().Args {
				mi, ok := a.(*ssa.MakeInterface)
				if !ok {
					continue
				}
				t := mi.X.Type()
				if pt, ok := t.(*types.Pointer); ok {
					t = pt.Elem()
				}
				if n, ok := t.(*types.Named); ok && n.Obj().Pkg() != nil && strings.HasPrefix(n.Obj().Pkg().Path(), modPath) {
					roots[typeStr(n)] = n
					c.touch(fn)
				}
			}
		}
	}
	c.floor(rule, "message root types sent/received on streams", len(roots), 7)
	seen := map[string]bool{}
	var visit func(t types.Type)
	nStructs := 0
	visit = func(t types.Type) {
		switch x := t.(type) {
		case *types.Pointer:
			visit(x.Elem())
		case *types.Slice:
			visit(x.Elem())
		case *types.Array:
			visit(x.Elem())
		case *types.Map:
			visit(x.Key())
			visit(x.Elem())
		case *types.Named:
			if x.Obj().Pkg() == nil || !strings.HasPrefix(x.Obj().Pkg().Path(), modPath) {
				return
			}
			k := typeStr(x)
			if seen[k] {
				return
			}
			seen[k] = true
			st, ok := x.Underlying().(*types.Struct)
			if !ok {
				visit(x.Underlying())
				return
			}
			// types with custom codecs define their own wire format (C20.b/c)
			if methodOf(c, x, "DecodeMsgpack") != nil {
				return
			}
			nStructs++
			var bad []string
			for i := 0; i < st.NumFields(); i++ {
				f := st.Field(i)
				if !f.Exported() && !f.Embedded() {
					if _, ok := c20UnexportedOK[k+"."+f.Name()]; ok {
						continue
					}
					bad = append(bad, f.Name())
				}
				visit(f.Type())
			}
			c.check(rule, "message struct "+k+" fully exported", x.Obj().Pos(), len(bad) == 0, "all fields exported (default msgpack struct codec transmits them)", "unexported field(s) "+strings.Join(bad, ", ")+" are silently dropped by the default msgpack struct codec")
		}
	}
	var rk []string
	for k := range roots {
		rk = append(rk, k)
	}
	sort.Strings(rk)
	for _, k := range rk {
		visit(roots[k])
	}
	c.floor(rule, "message structs examined", nStructs, 10)
	// FlatRow.fields restored by receiver
	if qc := c.need(rule, "(*z.DB).queryCluster"); qc != nil {
		sets := callsTo(qc, "(*z/core.FlatRow).SetFields")
		ok := len(sets) > 0
		var pos token.Pos = qc.Pos()
		// every dynamic call of the onFlatRow parameter is dominated by a SetFields call
		nCalls := 0
		for _, call := range calls(qc) {
			if call.Common().StaticCallee() == nil && !call.Common().IsInvoke() && dynName(call.Common().Value) == "onFlatRow" {
				nCalls++
				pos = call.Pos()
				dom := false
				for _, s := range sets {
					if instrDominates(s, call) && sameValue(s.Common().Args[0], call.Common().Args[0]) {
						dom = true
					}
				}
				if !dom {
					ok = false
				}
			}
		}
		if nCalls == 0 {
			// identify by type instead of name
			for _, call := range calls(qc) {
				if call.Common().StaticCallee() == nil && !call.Common().IsInvoke() && typeStr(call.Common().Value.Type()) == "z/core.OnFlatRow" {
					nCalls++
					pos = call.Pos()
					dom := false
					for _, s := range sets {
						if instrDominates(s, call) {
							dom = true
						}
					}
					if !dom {
						ok = false
					}
				}
			}
		}
		c.check(rule, "queryCluster restores FlatRow.fields before forwarding", pos, ok && nCalls > 0, "flatRow.SetFields(...) dominates the onFlatRow call on the same row", "a flat row received from a partition is forwarded without SetFields: its unexported fields slice is nil after decoding")
	}
}

func init() {
	register(&PropSpec{
		ID:          "C20",
		Explanation: "Decides the structural clause 'the codec tables are complete and symmetric': every expr.Expr implementation registered once with a unique msgpack extension id; goexpr types constructible from SQL registered; every field read by an expression's behavioural methods restored on decode (exported/default-coded or assigned in DecodeMsgpack, function-valued fields from the constructor's registry); custom encoder/decoder operand sequences equal; all message structs crossing SendMsg/RecvMsg fully exported (FlatRow.fields restored by the receiver). Added clauses: every RecvMsg in a loop decodes into an object allocated in that iteration; the follower's query context carries the request's IncludeMemStore on every path and its deadline. Further clauses: Marshal returns bytes that are not recycled; errors are marked retriable only where no row of the partition can have been delivered.",
		NotDecided:  []string{"byte-level fidelity of msgpack, snappy and gRPC", "float formatting / NaN payloads", "value equality of decoded expressions on data (needs execution)"},
		Assumptions: []string{"msgpack v3.1.4: structs are encoded as maps of exported and embedded fields; types with EncodeMsgpack/DecodeMsgpack use those; RegisterExt ids select the decoded type"},
		Rules:       []func(*Ctx){ruleC20a, ruleC20b, ruleC20c, ruleC20d, ruleC20e, ruleC20f, ruleC20g, ruleC20h, ruleC20i, ruleC20j},
	})
}

// ruleC20e: wire-representation stability of message structs and the insert
// batch protocol.
func ruleC20e(c *Ctx) {
	const rule = "C20.e"
	c.describe(rule, "reg/dom: message structs carry no msgpack struct tags (omitempty, '-', renames change what the receiver sees — e.g. an empty-but-non-nil row key must stay distinguishable from nil); in (*server).Insert every iteration of the receive loop that continues with the next message has first passed the stream-name latch (only the first message of a batch names the stream)")
	// struct tags
	n := 0
	seen := map[string]bool{}
	var visit func(t types.Type)
	visit = func(t types.Type) {
		switch x := t.(type) {
		case *types.Pointer:
			visit(x.Elem())
		case *types.Slice:
			visit(x.Elem())
		case *types.Map:
			visit(x.Elem())
		case *types.Named:
			if x.Obj().Pkg() == nil || !strings.HasPrefix(x.Obj().Pkg().Path(), modPath) {
				return
			}
			k := typeStr(x)
			if seen[k] {
				return
			}
			seen[k] = true
			st, ok := x.Underlying().(*types.Struct)
			if !ok {
				return
			}
			n++
			var bad []string
			for i := 0; i < st.NumFields(); i++ {
				tag := st.Tag(i)
				if strings.Contains(tag, "msgpack:") {
					bad = append(bad, st.Field(i).Name()+" `"+tag+"`")
				}
				visit(st.Field(i).Type())
			}
			c.check(rule, "message struct "+k+" has no msgpack tags", x.Obj().Pos(), len(bad) == 0, "default field encoding", "msgpack struct tags change the wire representation: "+strings.Join(bad, ", ")+" — receivers discriminate messages by nil-ness/presence of fields (e.g. queryCluster treats a row with key == nil as the partition's final message)")
		}
	}
	for _, name := range []string{"Insert", "InsertReport", "Query", "Point", "SourceInfo", "RemoteQueryResult", "RegisterQueryHandler"} {
		if t := c.P.Named("z/rpc", name); t != nil {
			visit(t)
		}
	}
	for _, name := range []string{"Follow", "QueryMetaData", "QueryStats"} {
		if t := c.P.Named("z/common", name); t != nil {
			visit(t)
		}
	}
	c.floor(rule, "message structs checked for tags", n, 10)
	// insert protocol
	ins := c.need(rule, "(*z/rpc/server.server).Insert")
	if ins == nil {
		return
	}
	var latch *ssa.If
	for _, ci := range findIfs(ins, func(v ssa.Value) bool {
		b, ok := v.(*ssa.BinOp)
		if !ok || (b.Op != token.EQL && b.Op != token.NEQ) {
			return false
		}
		s, isC := constString(b.Y)
		_, isPhi := b.X.(*ssa.Phi)
		return isC && s == "" && isPhi
	}) {
		latch = ci.i
	}
	if latch == nil {
		c.undecided(rule, "Insert: stream-name latch", ins.Pos(), "no test of the latched stream name against \"\" found")
		return
	}
	ok := true
	nBack := 0
	for _, l := range loopsOf(ins) {
		for _, p := range l.header.Preds {
			if l.body[p] {
				nBack++
				if !latch.Block().Dominates(p) {
					ok = false
				}
			}
		}
	}
	c.check(rule, "Insert: every continued iteration has latched the stream name", latch.Pos(), ok && nBack > 0, "the latch dominates all "+itoa(nBack)+" back edges of the receive loop", "the receive loop can continue with the next message without having latched the batch's stream name from the first message: if the first point of a batch is rejected, the stream name is lost and the rest of the batch fails")
}

// ruleC20f: every field of a protocol message that one side sets is consumed
// by the other side, and every field that is consumed is set by someone.
func ruleC20f(c *Ctx) {
	const rule = "C20.f"
	c.describe(rule, "reg (field write/read sets over the whole module): for the RPC protocol messages (rpc.Query, rpc.RemoteQueryResult, rpc.Insert, rpc.Point, rpc.SourceInfo, rpc.RegisterQueryHandler, common.Follow) every field stored by some function is loaded by some function and vice versa — a field the sender stops filling (e.g. IncludeMemStore, Deadline) or the receiver stops honouring silently changes the meaning of the message")
	type rw struct{ w, r []string }
	msgs := []string{"z/rpc.Query", "z/rpc.RemoteQueryResult", "z/rpc.Insert", "z/rpc.Point", "z/rpc.SourceInfo", "z/rpc.RegisterQueryHandler", "z/common.Follow"}
	isMsg := map[string]bool{}
	for _, m := range msgs {
		isMsg[m] = true
	}
	acc := map[string]*rw{}
	note := func(key string, write bool, fn *ssa.Function) {
		x := acc[key]
		if x == nil {
			x = &rw{}
			acc[key] = x
		}
		if write {
			x.w = append(x.w, stableName(fn))
		} else {
			x.r = append(x.r, stableName(fn))
		}
	}
	for _, fn := range c.P.ModFns {
		if strings.HasPrefix(pkgOf(fn), "z/testsupport") {
			continue
		}
		for _, in := range instrs(fn) {
			switch x := in.(type) {
			case *ssa.FieldAddr:
				f := fieldVar(x.X.Type(), x.Field)
				if f == nil {
					continue
				}
				k := fieldKey(x.X.Type(), f)
				st := k[:strings.LastIndex(k, ".")]
				if !isMsg[st] {
					continue
				}
				for _, r := range *x.Referrers() {
					switch y := r.(type) {
					case *ssa.Store:
						if y.Addr == ssa.Value(x) {
							note(k, true, fn)
						} else {
							note(k, false, fn) // address stored elsewhere: treat as read
						}
					case *ssa.UnOp:
						note(k, false, fn)
					case *ssa.DebugRef:
					default:
						// address escapes (passed to a call, e.g. ctx.Deadline() results stored through it): both
						note(k, true, fn)
						note(k, false, fn)
					}
				}
			case *ssa.Field:
				f := fieldVar(x.X.Type(), x.Field)
				if f == nil {
					continue
				}
				k := fieldKey(x.X.Type(), f)
				if isMsg[k[:strings.LastIndex(k, ".")]] {
					note(k, false, fn)
				}
			}
		}
	}
	n := 0
	for _, m := range msgs {
		T := (*types.Named)(nil)
		if strings.HasPrefix(m, "z/rpc.") {
			T = c.P.Named("z/rpc", strings.TrimPrefix(m, "z/rpc."))
		} else {
			T = c.P.Named("z/common", strings.TrimPrefix(m, "z/common."))
		}
		if T == nil {
			c.undecided(rule, "message type "+m, token.NoPos, "type not found")
			continue
		}
		st, ok := T.Underlying().(*types.Struct)
		if !ok {
			continue
		}
		for i := 0; i < st.NumFields(); i++ {
			f := st.Field(i)
			k := m + "." + f.Name()
			x := acc[k]
			n++
			hasW := x != nil && len(x.w) > 0
			hasR := x != nil && len(x.r) > 0
			switch {
			case hasW && hasR:
				c.ok(rule, "message field "+k+" is set and consumed", f.Pos(), "set in "+uniqJoin(x.w)+"; read in "+uniqJoin(x.r))
			case hasW:
				c.bad(rule, "message field "+k+" is set and consumed", f.Pos(), "the field is filled by "+uniqJoin(x.w)+" but no function of the module reads it: the receiving side ignores part of the message (e.g. a deadline, a flag or an error) and behaves differently from an in-process call")
			case hasR:
				c.bad(rule, "message field "+k+" is set and consumed", f.Pos(), "the field is read by "+uniqJoin(x.r)+" but no function of the module ever sets it: the receiver always sees the zero value")
			default:
				c.bad(rule, "message field "+k+" is set and consumed", f.Pos(), "the field is neither set nor read anywhere in the module")
			}
		}
	}
	c.floor(rule, "protocol message fields", n, 20)
}

func uniqJoin(s []string) string {
	seen := map[string]bool{}
	var out []string
	for _, x := range s {
		if !seen[x] {
			seen[x] = true
			out = append(out, x)
		}
	}
	sort.Strings(out)
	if len(out) > 3 {
		out = append(out[:3], "…")
	}
	return strings.Join(out, ", ")
}

// ruleC20g: msgpack decodes INTO the object it is given; a receive loop that
// hands decoded messages on (to another goroutine, a channel, a consumer that
// keeps them) needs a fresh object per message.
func ruleC20g(c *Ctx) {
	const rule = "C20.g"
	c.describe(rule, "flow: every stream.RecvMsg executed inside a loop in packages rpc and rpc/server decodes into an object allocated in that same iteration — a reused message object makes every row already handed on change under its consumer (rows and keys alias the previous message's backing arrays)")
	n := 0
	for _, fn := range c.P.ModFns {
		pk := pkgOf(fn)
		if pk != "z/rpc" && pk != "z/rpc/server" {
			continue
		}
		for _, call := range calls(fn) {
			if !strings.HasSuffix(calleeName(call), ".RecvMsg") {
				continue
			}
			l := innermostLoop(fn, call.Block())
			if l == nil {
				continue
			}
			n++
			c.touch(fn)
			a := call.Common().Args
			arg := a[len(a)-1]
			v := strip(arg)
			if mi, ok := arg.(*ssa.MakeInterface); ok {
				v = strip(mi.X)
			}
			fresh := false
			var where ssa.Value = v
			// direct allocation, or a load of a cell whose only store inside the loop is a fresh allocation
			if al, ok := v.(*ssa.Alloc); ok && l.body[al.Block()] {
				fresh = true
			}
			if u, ok := v.(*ssa.UnOp); ok && u.Op == token.MUL {
				cell := cellRoot(u.X)
				nIn, allFresh := 0, true
				for _, st := range cellStores(topOf(fn), cell) {
					if st.Parent() == fn && l.body[st.Block()] {
						nIn++
						al, isAl := strip(st.Val).(*ssa.Alloc)
						if !isAl || !l.body[al.Block()] || !instrReaches(st, call.(ssa.Instruction), blockSet{l.header: true}) {
							allFresh = false
						}
					}
				}
				fresh = nIn > 0 && allFresh
			}
			if ph, ok := v.(*ssa.Phi); ok {
				// m = phi[initial, fresh-in-loop]: the value used by a RecvMsg in the loop must be the in-loop allocation
				_ = ph
			}
			_ = where
			top := topOf(fn)
			c.check(rule, stableName(top)+": receive #"+itoa(perTopCount(c, rule, top))+" in a loop decodes into a fresh message", call.Pos(), fresh, "the message object is allocated in the same iteration", "stream.RecvMsg inside a loop decodes into an object that outlives the iteration: msgpack reuses the previous message's *FlatRow / key / value arrays, so rows already handed to the merging goroutine are overwritten by later ones")
		}
	}
	c.floor(rule, "RecvMsg calls inside loops", n, 3)
}

// ruleC20h: what the leader asked for reaches the follower's query function.
func ruleC20h(c *Ctx) {
	const rule = "C20.h"
	c.describe(rule, "flow: in (*client).ProcessRemoteQuery the context handed to the query function carries, on every path, the request's IncludeMemStore flag (derived through common.WithIncludeMemStore(…, q.IncludeMemStore)) and, under q.HasDeadline, the request's deadline — a flag attached to a context that is then replaced is lost and the follower silently answers a different question")
	fn := c.need(rule, "(*z/rpc.client).ProcessRemoteQuery")
	if fn == nil {
		return
	}
	var qp *ssa.Parameter
	for _, p := range fn.Params {
		if typeStr(p.Type()) == "z/planner.QueryClusterFN" {
			qp = p
		}
	}
	n := 0
	for _, call := range calls(fn) {
		if qp == nil || !isCallOfParam(call, qp) {
			continue
		}
		n++
		ctxArg := call.Common().Args[0]
		var carries func(v ssa.Value, what string, seen map[ssa.Value]bool) bool
		carries = func(v ssa.Value, what string, seen map[ssa.Value]bool) bool {
			v = strip(v)
			if seen[v] {
				return true
			}
			seen[v] = true
			switch x := v.(type) {
			case *ssa.Phi:
				for _, e := range x.Edges {
					if !carries(e, what, seen) {
						return false
					}
				}
				return true
			case *ssa.Extract:
				return carries(x.Tuple, what, seen)
			case *ssa.UnOp:
				if x.Op == token.MUL {
					sts := cellStores(fn, cellRoot(x.X))
					if len(sts) == 0 {
						return false
					}
					for _, st := range sts {
						if !carries(st.Val, what, seen) {
							return false
						}
					}
					return true
				}
			case *ssa.Call:
				cn := calleeName(x)
				if cn == what {
					return true
				}
				if strings.HasPrefix(cn, "context.With") || cn == "z/common.WithIncludeMemStore" {
					return carries(x.Call.Args[0], what, seen)
				}
			}
			return false
		}
		okMS := carries(ctxArg, "z/common.WithIncludeMemStore", map[ssa.Value]bool{})
		c.check(rule, "ProcessRemoteQuery: the query context carries IncludeMemStore", call.Pos(), okMS, "every definition of the context passes through common.WithIncludeMemStore", "on some path the context handed to the query function was not derived from common.WithIncludeMemStore(…, q.IncludeMemStore) (e.g. the deadline context is built from stream.Context() again): a fresh query with a deadline is answered without the follower's memstore")
		// the include flag is the request's
		okSrc := false
		for _, c2 := range callsTo(fn, "z/common.WithIncludeMemStore") {
			if isFieldLoad(c2.Common().Args[1], "z/rpc.Query.IncludeMemStore") {
				okSrc = true
			}
		}
		c.check(rule, "ProcessRemoteQuery: IncludeMemStore is the request's flag", call.Pos(), okSrc, "WithIncludeMemStore(ctx, q.IncludeMemStore)", "the include-memstore value attached to the context is not the one the leader sent")
		// deadline: on the HasDeadline side the context derives from WithDeadline
		okDL := false
		for _, c2 := range callsTo(fn, "context.WithDeadline") {
			if isFieldLoad(c2.Common().Args[1], "z/rpc.Query.Deadline") {
				for _, g := range guardsOf(c2.Block()) {
					if g.pos && isFieldLoad(g.v, "z/rpc.Query.HasDeadline") {
						okDL = true
					}
				}
			}
		}
		c.check(rule, "ProcessRemoteQuery: the request's deadline bounds the follower's query", call.Pos(), okDL, "context.WithDeadline(…, q.Deadline) under q.HasDeadline", "the follower does not run the query under the deadline the leader sent")
	}
	c.floor(rule, "query function calls in ProcessRemoteQuery", n, 1)
}

// ruleC20i: what the codec returns stays what it encoded.
func ruleC20i(c *Ctx) {
	const rule = "C20.i"
	c.describe(rule, "flow (ownership): MsgPackCodec.Marshal returns bytes that nothing else will write — neither it nor a helper of it takes the encode buffer from, or returns it to, a pool (sync.Pool); grpc keeps the slice beyond the call (it copies only the first frame synchronously), so a recycled buffer lets the tail of a large message be overwritten by the next one")
	mf := c.need(rule, "(*z/rpc.MsgPackCodec).Marshal")
	if mf == nil {
		return
	}
	bad := ""
	for _, f := range withHelpers(c.P, mf) {
		for _, call := range calls(f) {
			cn := calleeName(call)
			if cn == "(*sync.Pool).Put" || cn == "(*sync.Pool).Get" {
				bad = cn + " at " + c.P.Pos(call.Pos())
			}
		}
	}
	c.check(rule, "Marshal returns bytes it does not recycle", mf.Pos(), bad == "", "no pooled buffer in Marshal", "Marshal encodes into a pooled buffer ("+bad+") and returns its bytes: the next Marshal overwrites them while grpc may still be sending them — rows decode without error but carry another message's trailing values")
}

// ruleC20j: a partition is retried only while nothing of it has been delivered.
func ruleC20j(c *Ctx) {
	const rule = "C20.j"
	c.describe(rule, "dom: in the handler registered by HandleRemoteQueries an error is marked retriable (queryCluster then re-runs the partition on another handler) only where no row of this partition can have been handed on yet — before the receive loop, or under the 'first message' flag; rows already streamed are not retracted, so a retry after a mid-result failure returns them twice and reports the partition successful")
	hq := c.need(rule, "(*z/rpc/server.server).HandleRemoteQueries")
	if hq == nil {
		return
	}
	var h *ssa.Function
	for _, a := range hq.AnonFuncs {
		for _, p := range a.Params {
			if typeStr(p.Type()) == "z/core.OnFields" {
				h = a
			}
		}
	}
	if h == nil {
		c.undecided(rule, "registered query handler", hq.Pos(), "no closure with an OnFields parameter found")
		return
	}
	var rowCalls []ssa.Instruction
	for _, call := range calls(h) {
		for _, p := range h.Params {
			ts := typeStr(p.Type())
			if (ts == "z/core.OnRow" || ts == "z/core.OnFlatRow") && isCallOfParam(call, p) {
				rowCalls = append(rowCalls, call.(ssa.Instruction))
			}
		}
	}
	n := 0
	for _, call := range callsTo(h, "z/common.MarkRetriable") {
		n++
		afterRows := false
		for _, rc := range rowCalls {
			if instrReaches(rc, call.(ssa.Instruction), nil) {
				afterRows = true
			}
		}
		firstGuard := false
		for _, g := range guardsOf(call.Block()) {
			if g.pos && typeStr(g.v.Type()) == "bool" {
				if _, isPhi := g.v.(*ssa.Phi); isPhi {
					// the 'first' flag: true initially, set false once the fields message was consumed
					for _, leaf := range phiLeaves(g.v) {
						if cb, isC := constBool(leaf); isC && cb {
							firstGuard = true
						}
					}
				}
			}
		}
		c.check(rule, "retriable #"+itoa(n)+" only before any row was delivered", call.Pos(), !afterRows || firstGuard, "not reachable from a row callback, or under the first-message flag", "an error is marked retriable at a point that can follow the delivery of rows: queryCluster re-runs the partition on another handler and the rows the failed stream already delivered are returned again")
	}
	c.floor(rule, "MarkRetriable calls in the registered handler", n, 2)
}
