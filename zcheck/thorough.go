package main

// thorough tier: placeholder, extended below in later commits.
func thorough(c *Ctx, spec *PropSpec, repo string, extra map[string]interface{}) {
	thoroughImpl(c, spec, repo, extra)
}
