package main

import (
	"encoding/json"
	"fmt"
	"os"
	"os/exec"
	"path/filepath"
	"sort"
	"strings"
	"sync"
)

// thoroughImpl extends a quick run with
//
//	(a) a re-evaluation of all rules under CHA-only call resolution — verdicts
//	    must agree with the VTA run;
//	(b) the sensitivity suite: every confirmed seeded change kept under
//	    <verif>/seeded that names this property and is marked detected is applied
//	    to a scratch copy of the CURRENT tree and the property's rules must report
//	    at least one violation.
func thoroughImpl(c *Ctx, spec *PropSpec, repo string, extra map[string]interface{}) {
	// (a) CHA cross-check
	P2 := *c.P
	P2.cg = nil
	P2.cgMode = "cha"
	c2 := newCtx(&P2, c.Prop, c.Tier)
	c2.Known = c.Known
	for _, r := range spec.Rules {
		runRule(c2, r)
	}
	key := func(o Obligation) string { return o.Rule + "|" + o.Instance }
	v1 := map[string]Verdict{}
	for _, o := range c.Obs {
		v1[key(o)] = o.Verdict
	}
	nAgree, nDis := 0, 0
	for _, o := range c2.Obs {
		if v, ok := v1[key(o)]; ok && v == o.Verdict {
			nAgree++
		} else {
			nDis++
			c.add("thorough", "call-graph disagreement on "+key(o), 0, BROKEN, fmt.Sprintf("VTA verdict %q, CHA verdict %q", v, o.Verdict))
		}
	}
	if len(c2.Obs) != len(c.Obs) {
		c.add("thorough", "call-graph disagreement: obligation counts", 0, BROKEN, fmt.Sprintf("VTA %d obligations, CHA %d", len(c.Obs), len(c2.Obs)))
	}
	extra["cha_crosscheck"] = map[string]int{"agree": nAgree, "disagree": nDis}
	theModsum = nil

	// (b) sensitivity suite
	verifDir := verifDirOf()
	seedDir := filepath.Join(verifDir, "seeded")
	ents, _ := os.ReadDir(seedDir)
	type seed struct {
		id, patch, status, by string
	}
	var seeds []seed
	for _, e := range ents {
		if !e.IsDir() {
			continue
		}
		b, err := os.ReadFile(filepath.Join(seedDir, e.Name(), "meta.json"))
		if err != nil {
			continue
		}
		var m struct {
			ID        string `json:"id"`
			Property  string `json:"property"`
			Detection struct {
				Status string `json:"status"`
				By     string `json:"by"`
			} `json:"detection"`
		}
		if json.Unmarshal(b, &m) != nil || m.Property != c.Prop {
			continue
		}
		seeds = append(seeds, seed{m.ID, filepath.Join(seedDir, e.Name(), "patch.diff"), m.Detection.Status, m.Detection.By})
	}
	sort.Slice(seeds, func(i, j int) bool { return seeds[i].id < seeds[j].id })
	type result struct {
		ID      string   `json:"seed"`
		Status  string   `json:"expected"`
		Outcome string   `json:"outcome"`
		Rules   []string `json:"reported_by,omitempty"`
	}
	results := make([]result, len(seeds))
	var wg sync.WaitGroup
	sem := make(chan bool, 3)
	self, _ := os.Executable()
	for i, s := range seeds {
		wg.Add(1)
		go func(i int, s seed) {
			defer wg.Done()
			sem <- true
			defer func() { <-sem }()
			res := result{ID: s.id, Status: s.status}
			tmp, err := os.MkdirTemp("", "zcheck-seed-")
			if err != nil {
				res.Outcome = "error: " + err.Error()
				results[i] = res
				return
			}
			defer os.RemoveAll(tmp)
			tree := filepath.Join(tmp, "tree")
			out := filepath.Join(tmp, "out")
			os.MkdirAll(out, 0o755)
			if b, err := exec.Command("rsync", "-a", "--exclude", ".git", strings.TrimRight(repo, "/")+"/", tree+"/").CombinedOutput(); err != nil {
				res.Outcome = "error copying tree: " + string(b)
				results[i] = res
				return
			}
			os.RemoveAll(filepath.Join(tree, ".git"))
			ap := exec.Command("git", "apply", "--whitespace=nowarn", s.patch)
			ap.Dir = tree
			if b, err := ap.CombinedOutput(); err != nil {
				res.Outcome = "skipped: patch no longer applies to the current tree (" + strings.TrimSpace(firstLine(string(b))) + ")"
				results[i] = res
				return
			}
			if kb, err := os.ReadFile(filepath.Join(verifDir, "known_findings.json")); err == nil {
				os.WriteFile(filepath.Join(out, "known_findings.json"), kb, 0o644)
			}
			cmd := exec.Command(self, "-p", c.Prop, "-repo", tree, "-verif", out, "-tier", "quick")
			ob, _ := cmd.CombinedOutput()
			rules := map[string]bool{}
			for _, l := range strings.Split(string(ob), "\n") {
				if strings.HasPrefix(l, "VIOLATION ") && !strings.HasPrefix(l, "VIOLATION property=") || strings.HasPrefix(l, "UNDECIDED ") {
					f := strings.Fields(l)
					if len(f) > 1 {
						rules[f[1]] = true
					}
				}
			}
			for r := range rules {
				res.Rules = append(res.Rules, r)
			}
			sort.Strings(res.Rules)
			if len(res.Rules) > 0 {
				res.Outcome = "detected"
			} else if strings.Contains(string(ob), "ERROR:") {
				res.Outcome = "error: " + firstLine(string(ob))
			} else {
				res.Outcome = "not detected"
			}
			results[i] = res
		}(i, s)
	}
	wg.Wait()
	nDet, nExp := 0, 0
	for _, r := range results {
		fmt.Printf("SEED %-7s expected=%-12s outcome=%s %v\n", r.ID, r.Status, r.Outcome, r.Rules)
		if r.Status != "missed" {
			nExp++
			if r.Outcome == "detected" {
				nDet++
			} else if r.Outcome == "not detected" {
				c.add("thorough", "checker insensitive to seeded change "+r.ID, 0, BROKEN, "the rules of "+c.Prop+" no longer report the confirmed seeded change "+r.ID+" (applied to a scratch copy of the current tree): the checker lost sensitivity — this is a defect of the checker, not of zenodb")
			}
		}
	}
	extra["sensitivity_suite"] = results
	extra["sensitivity_detected"] = nDet
	extra["sensitivity_expected"] = nExp

	// (c) silence suite: the behaviour-preserving diffs kept under <verif>/benign
	// that touch a file this property's rules looked at are applied to a scratch
	// copy of the current tree; the property's rules must stay silent on each.
	files := map[string]bool{}
	for f := range c.fnsSeen {
		if p := c.P.Pos(f.Pos()); p != "" && p != "-" {
			if i := strings.LastIndex(p, ":"); i > 0 {
				files[p[:i]] = true
			}
		}
	}
	bents, _ := os.ReadDir(filepath.Join(verifDir, "benign"))
	type bres struct {
		Diff    string   `json:"diff"`
		Outcome string   `json:"outcome"`
		Rules   []string `json:"alarms,omitempty"`
	}
	var todo []string
	for _, e := range bents {
		if e.IsDir() || !strings.HasSuffix(e.Name(), ".diff") {
			continue
		}
		b, err := os.ReadFile(filepath.Join(verifDir, "benign", e.Name()))
		if err != nil {
			continue
		}
		touches := false
		for _, l := range strings.Split(string(b), "\n") {
			if strings.HasPrefix(l, "+++ b/") && files[strings.TrimPrefix(l, "+++ b/")] {
				touches = true
			}
		}
		if touches {
			todo = append(todo, e.Name())
		}
	}
	sort.Strings(todo)
	// bounded: at most 12 diffs per property, spread over the sets (A-…, B-…, …)
	const maxBenign = 12
	if len(todo) > maxBenign {
		bySet := map[string][]string{}
		var sets []string
		for _, n := range todo {
			k := n[:1]
			if len(bySet[k]) == 0 {
				sets = append(sets, k)
			}
			bySet[k] = append(bySet[k], n)
		}
		var pick []string
		for i := 0; len(pick) < maxBenign; i++ {
			progress := false
			for _, k := range sets {
				if i < len(bySet[k]) && len(pick) < maxBenign {
					pick = append(pick, bySet[k][i])
					progress = true
				}
			}
			if !progress {
				break
			}
		}
		extra["silence_skipped_for_time"] = len(todo) - len(pick)
		todo = pick
		sort.Strings(todo)
	}
	bresults := make([]bres, len(todo))
	for i, name := range todo {
		wg.Add(1)
		go func(i int, name string) {
			defer wg.Done()
			sem <- true
			defer func() { <-sem }()
			res := bres{Diff: name}
			tmp, err := os.MkdirTemp("", "zcheck-benign-")
			if err != nil {
				res.Outcome = "error: " + err.Error()
				bresults[i] = res
				return
			}
			defer os.RemoveAll(tmp)
			tree := filepath.Join(tmp, "tree")
			out := filepath.Join(tmp, "out")
			os.MkdirAll(out, 0o755)
			if b, err := exec.Command("rsync", "-a", "--exclude", ".git", strings.TrimRight(repo, "/")+"/", tree+"/").CombinedOutput(); err != nil {
				res.Outcome = "error copying tree: " + string(b)
				bresults[i] = res
				return
			}
			ap := exec.Command("git", "apply", "--whitespace=nowarn", filepath.Join(verifDir, "benign", name))
			ap.Dir = tree
			if b, err := ap.CombinedOutput(); err != nil {
				res.Outcome = "skipped: diff no longer applies to the current tree (" + strings.TrimSpace(firstLine(string(b))) + ")"
				bresults[i] = res
				return
			}
			if kb, err := os.ReadFile(filepath.Join(verifDir, "known_findings.json")); err == nil {
				os.WriteFile(filepath.Join(out, "known_findings.json"), kb, 0o644)
			}
			if sb, err := os.ReadFile(filepath.Join(verifDir, "symbols.json")); err == nil {
				os.WriteFile(filepath.Join(out, "symbols.json"), sb, 0o644)
			}
			cmd := exec.Command(self, "-p", c.Prop, "-repo", tree, "-verif", out, "-tier", "quick")
			ob, _ := cmd.CombinedOutput()
			rules := map[string]bool{}
			for _, l := range strings.Split(string(ob), "\n") {
				if strings.HasPrefix(l, "VIOLATION ") && !strings.HasPrefix(l, "VIOLATION property=") || strings.HasPrefix(l, "UNDECIDED ") {
					f := strings.Fields(l)
					if len(f) > 1 {
						rules[f[1]] = true
					}
				}
			}
			for r := range rules {
				res.Rules = append(res.Rules, r)
			}
			sort.Strings(res.Rules)
			switch {
			case len(res.Rules) > 0:
				res.Outcome = "alarm"
			case strings.Contains(string(ob), "ERROR:"):
				res.Outcome = "error: " + firstLine(string(ob))
			default:
				res.Outcome = "silent"
			}
			bresults[i] = res
		}(i, name)
	}
	wg.Wait()
	nSilent := 0
	for _, r := range bresults {
		fmt.Printf("BENIGN %-32s outcome=%s %v\n", r.Diff, r.Outcome, r.Rules)
		if r.Outcome == "silent" {
			nSilent++
		}
		if r.Outcome == "alarm" {
			c.add("thorough", "checker raises an alarm on the behaviour-preserving change "+r.Diff, 0, BROKEN, "the rules of "+c.Prop+" ("+strings.Join(r.Rules, ", ")+") report the behaviour-preserving diff benign/"+r.Diff+" (applied to a scratch copy of the current tree): a false alarm of the checker, not a defect of zenodb")
		}
	}
	extra["silence_suite"] = bresults
	extra["silence_silent"] = nSilent
	extra["silence_run"] = len(bresults)
}

func firstLine(s string) string {
	if i := strings.Index(s, "\n"); i >= 0 {
		return s[:i]
	}
	return s
}

var verifDirFlag = "/verif"

func verifDirOf() string { return verifDirFlag }
