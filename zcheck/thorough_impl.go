package main

func thoroughImpl(c *Ctx, spec *PropSpec, repo string, extra map[string]interface{}) {
}
