package main

import (
	"go/token"
	"go/types"
	"sort"
	"strings"

	"golang.org/x/tools/go/ssa"
)

// C13 — incomplete results are never presented as complete.

// resultProducer classifies a call site as producing a query-result-path error.
func resultProducer(c ssa.CallInstruction) (kind string, ok bool) {
	cc := c.Common()
	cn := calleeName(c)
	if !sigHasError(cc.Signature()) {
		return "", false
	}
	if cc.IsInvoke() {
		m := cc.Method
		if m.Name() == "Iterate" && m.Pkg() != nil && strings.HasPrefix(m.Pkg().Path(), modPath) {
			return cn, true
		}
		return "", false
	}
	if sc := cc.StaticCallee(); sc != nil {
		if !inModule(sc) {
			return "", false
		}
		switch cn {
		case "(*z.table).iterate", "(*z.rowStore).iterate", "(*z.fileStore).iterate",
			"(*z/bytetree.Tree).Walk", "(*z.DB).queryCluster", "(*z.DB).queryForRemote":
			return cn, true
		}
		if sc.Name() == "Iterate" && sc.Signature.Recv() != nil {
			return cn, true
		}
		return "", false
	}
	// dynamic call
	if n, ok := cc.Value.Type().(*types.Named); ok {
		tn := typeStr(n)
		if tn == "z/planner.QueryClusterFN" {
			return "value of z/planner.QueryClusterFN", true
		}
	}
	// runSubQueries: value derived from planSubQueries' result 0
	if call, idx, ok := extractOf(root(cc.Value)); ok && idx == 0 && calleeName(call) == "z/planner.planSubQueries" {
		return "runSubQueries (result of z/planner.planSubQueries)", true
	}
	if nm := dynName(cc.Value); nm == "runSubQueries" {
		return "runSubQueries (parameter)", true
	}
	// row / field callbacks: any other dynamically called function value
	// returning an error (core.OnRow, core.OnFlatRow, core.OnFields, onValue, ...)
	if !isRowCallbackSig(cc.Signature()) {
		return "", false
	}
	nm := dynName(cc.Value)
	if nm == "" {
		nm = "?"
	}
	return "callback " + nm + " " + typeStr(cc.Value.Type()), true
}

// isRowCallbackSig: the row/field callback shapes of the result path:
// (...) (bool, error), (...) (bool, bool, error), or (core.Fields) error.
func isRowCallbackSig(sig *types.Signature) bool {
	r := sig.Results()
	n := r.Len()
	if n == 0 || !isErrorType(r.At(n-1).Type()) {
		return false
	}
	if n >= 2 {
		if b, ok := r.At(0).Type().Underlying().(*types.Basic); ok && b.Kind() == types.Bool {
			return sig.Params().Len() > 0
		}
		return false
	}
	if sig.Params().Len() == 1 && typeStr(sig.Params().At(0).Type()) == "z/core.Fields" {
		return true
	}
	return false
}

// c13Exceptions: reviewed exceptions (rule instance -> reason). An exception
// is not a known finding: the general rule demands more than the property
// needs at this one site, for the stated reason.
var c13Exceptions = map[string]string{
	"(*z.DB).queryCluster -> callback onRow z/core.OnRow": "unflat rows are consumed only by core.group, whose row callback's only error is the deadline (guard.Proceed) which group.Iterate re-tests in its own walk; no input makes this swallow an error the caller does not see (the flat sibling branch is checked normally)",
}

func init() {
	c13Exceptions["(*z/rpc/server.server).HandleRemoteQueries$fn -> callback onFields z/core.OnFields"] = "the registered handler is invoked only by (*DB).queryCluster (via remoteQueryHandlerForPartition), whose onFields closure forwards the fields on a channel and returns nil on every path; the type-based call graph cannot see that, the reading is recorded here"
}

var c13Cfg = &errflowCfg{
	sinkCalls: map[string]bool{
		"(*z/web.cacheEntry).fail": true,
		// struct fields whose owner is then sent on a channel / stream
		"field z.remoteResult.err":            true,
		"field z/planner.sqResult.err":        true,
		"field z/rpc.RemoteQueryResult.Error": true,
		"field z.iteration.err":               true,
	},
	sinkDynNames: map[string]bool{},
	swallowSentinels: map[string]bool{
		"z/core.ErrDeadlineExceeded": true, // applySubQueryFilters: the outer scan re-tests the same deadline on its next row
		// scoped to one function ("<function> <sentinel>"): the follower's query got io.EOF only
		// because the leader closed the stream it would report to; anywhere else io.EOF from a
		// producer means the data ended early and must count as a failure
		"(*z/rpc.client).ProcessRemoteQuery io.EOF": true,
	},
	swallowPreds: map[string]bool{},
	sinkInstr: func(in ssa.Instruction) bool {
		// queryCluster's failure bookkeeping: missingPartitions[partition] = true
		mu, ok := in.(*ssa.MapUpdate)
		if !ok {
			return false
		}
		if typeStr(mu.Map.Type()) != "map[int]bool" {
			return false
		}
		b, isConst := constBool(mu.Value)
		return isConst && b
	},
	swallowTypes: map[string]bool{
		"z/common.Retriable": true, // queryCluster retries the partition
	},
}

func ruleC13a(c *Ctx) { ruleC13aAs(c, "C13.a") }

func ruleC13aAs(c *Ctx, rule string) {
	c.describe(rule, "errflow E1+E2: at every call site of a query-result producer (Iterate implementations/interface calls, QueryClusterFN values, table/rowStore/fileStore.iterate, Tree.Walk, runSubQueries) the error is not dropped and on every path where it may be non-nil it reaches the caller or a failure sink")
	n := 0
	for _, fn := range c.P.ModFns {
		pk := pkgOf(fn)
		if strings.HasPrefix(pk, "z/cmd") || strings.HasPrefix(pk, "z/testsupport") {
			continue
		}
		for _, call := range calls(fn) {
			kind, ok := resultProducer(call)
			if !ok {
				continue
			}
			n++
			c.touch(fn)
			inst := stableName(fn) + " -> " + kind
			if why, ok := c13Exceptions[inst]; ok {
				c.ok(rule, inst, call.Pos(), "reviewed exception: "+why)
				continue
			}
			if nf, names := calleesNeverFail(c.P, call); nf {
				c.ok(rule, inst, call.Pos(), "every callee the call graph resolves for this site returns a nil error on all paths: "+strings.Join(names, ", "))
				continue
			}
			e, _ := errValueOf(call)
			if e == nil {
				c.bad(rule, inst, call.Pos(), "E1: the error result of this result-producing call is dropped (unused / assigned to _): a failed or truncated scan is indistinguishable from a complete one", debugCallees(c.P, call)...)
				continue
			}
			r := errflowE2(c.P, e, c13Cfg)
			if r.ok {
				c.ok(rule, inst, call.Pos(), "error is propagated to the caller or a failure sink on every path where it may be non-nil")
			} else {
				c.bad(rule, inst, call.Pos(), "E2: "+r.reason, r.path...)
			}
		}
	}
	c.floor(rule, "result-producing call sites", n, 25)
}

// stableName: SSA name with anonymous-function ordinals removed, so that
// instance keys do not change when an unrelated closure is added.
func stableName(fn *ssa.Function) string {
	n := short(fn.String())
	var sb strings.Builder
	for i := 0; i < len(n); i++ {
		if n[i] == '$' {
			sb.WriteString("$fn")
			i++
			for i < len(n) && n[i] >= '0' && n[i] <= '9' {
				i++
			}
			i--
			continue
		}
		sb.WriteByte(n[i])
	}
	return sb.String()
}

// calleesNeverFail: for a dynamic/interface call, all callees resolved by the
// call graph are module functions whose every return yields a nil error.
func calleesNeverFail(P *Prog, call ssa.CallInstruction) (bool, []string) {
	if call.Common().StaticCallee() != nil && call.Common().StaticCallee().Parent() == nil {
		fn := call.Common().StaticCallee()
		if inModule(fn) && neverFails(fn) {
			return true, []string{stableName(fn)}
		}
		return false, nil
	}
	node := P.CG().Nodes[call.Parent()]
	if node == nil {
		return false, nil
	}
	var names []string
	for _, e := range node.Out {
		if e.Site != call {
			continue
		}
		callee := e.Callee.Func
		if !inModule(callee) || !neverFails(callee) {
			return false, nil
		}
		names = append(names, stableName(callee))
	}
	sort.Strings(names)
	return len(names) > 0, names
}

func neverFails(fn *ssa.Function) bool {
	if len(fn.Blocks) == 0 {
		return false
	}
	for _, in := range instrs(fn) {
		r, ok := in.(*ssa.Return)
		if !ok {
			continue
		}
		for _, v := range r.Results {
			if isErrorType(v.Type()) && !isNilConst(v) {
				return false
			}
		}
	}
	if fn.Recover != nil {
		return false
	}
	return true
}

func pkgOf(fn *ssa.Function) string {
	for fn.Parent() != nil {
		fn = fn.Parent()
	}
	if fn.Pkg != nil {
		return short(fn.Pkg.Pkg.Path())
	}
	return ""
}

// ruleC13w verifies the pass-through wrapper the result path relies on:
// every implementation of core.TimeoutGuard.ProceedAfter returns origErr on
// every path where origErr may be non-nil.
func ruleC13w(c *Ctx) {
	const rule = "C13.w"
	c.describe(rule, "pass-through wrappers assumed by errflow are themselves verified: each TimeoutGuard.ProceedAfter implementation returns its error parameter whenever it is non-nil")
	n := 0
	for _, fn := range c.P.ModFns {
		if fn.Name() != "ProceedAfter" || fn.Signature.Recv() == nil || pkgOf(fn) != "z/core" {
			continue
		}
		n++
		c.touch(fn)
		var ep *ssa.Parameter
		for _, p := range fn.Params {
			if isErrorType(p.Type()) {
				ep = p
			}
		}
		if ep == nil {
			c.undecided(rule, stableName(fn), fn.Pos(), "no error parameter")
			continue
		}
		r := errflowFrom(c.P, ep, &errflowCfg{}, 0)
		if r.ok {
			c.ok(rule, stableName(fn), fn.Pos(), "returns origErr on every path where it may be non-nil")
		} else {
			c.bad(rule, stableName(fn), fn.Pos(), r.reason, r.path...)
		}
	}
	c.floor(rule, "ProceedAfter implementations", n, 2)
}

func init() {
	wrapCallees["invoke (z/core.TimeoutGuard).ProceedAfter"] = true
	register(&PropSpec{
		ID:          "C13",
		Explanation: "Decides, for every input and schedule, the structural clause 'on the query result path no error is dropped and every error reaches the caller or the failure bookkeeping': errflow rules over the SSA form of every call site of a result producer, plus dominance rules for the success bookkeeping (cache succeed, NumSuccessfulPartitions) and the scan-continuation rule (a scan never ends by itself with a nil error). Added clauses: no error-returning call on the result path is dropped; on the leader's end of a follower's query stream every receive error (io.EOF included) fails the partition and a message is used as fields/row only after EndOfResults == false. Further clause: IN-subqueries run under the runner's own context.",
		NotDecided:  []string{"whether deadlines/timeouts fire at the right time", "gRPC transport failures below the stream API", "os.IsNotExist on the data file being served as 'no file yet' (reading note)"},
		Assumptions: []string{"go/ssa models the control flow of the compiled program", "wrapper functions (fmt.Errorf, golog Errorf, errors.New) return a non-nil error carrying their argument"},
		Rules:       []func(*Ctx){ruleC13a, ruleC13w, ruleC13b, ruleC13d, ruleC13e, ruleC13f, ruleC13g, ruleC13h, ruleC13i},
	})
}

// debugCallees prints the resolved callees of a call site (diagnostics).
func debugCallees(P *Prog, call ssa.CallInstruction) []string {
	var out []string
	node := P.CG().Nodes[call.Parent()]
	if node == nil {
		return nil
	}
	for _, e := range node.Out {
		if e.Site == call {
			out = append(out, stableName(e.Callee.Func)+"@"+P.Pos(e.Callee.Func.Pos()))
		}
	}
	return out
}

// ruleC13b: success bookkeeping is dominated by the failure tests.
func ruleC13b(c *Ctx) {
	const rule = "C13.b"
	c.describe(rule, "dom: cache 'succeed' only after every earlier error was tested nil and the size cap was tested; NumSuccessfulPartitions++ only under result.err == nil; a failed partition result and every partition pending at timeout reach the missing-partition bookkeeping")
	// b1: web execQuery
	if fn := c.need(rule, "(*z/web.handler).execQuery"); fn != nil {
		sites := callsTo(fn, "(z/web.cacheEntry).succeed")
		c.floor(rule, "cacheEntry.succeed call sites in execQuery", len(sites), 1)
		for _, s := range sites {
			guards := guardsOf(s.Block())
			// every dominating error-producing call must be nil-tested
			for _, call := range calls(fn) {
				cv, ok := call.(*ssa.Call)
				if !ok || !instrDominates(cv, s) {
					continue
				}
				cn := calleeName(cv)
				if hasPrefixAny(cn, "invoke (github.com/getlantern/golog", "fmt.", "(z/web.cacheEntry)") || !sigHasError(cv.Call.Signature()) {
					continue
				}
				e, _ := errValueOf(cv)
				inst := "execQuery: succeed after " + cn
				if e == nil {
					c.bad(rule, inst, cv.Pos(), "error of "+cn+" is dropped before the result is cached as a success")
					continue
				}
				found := false
				for _, g := range guards {
					if x, nn, ok := nilTest(g); ok && !nn && sameValue(x, e) {
						found = true
					}
				}
				if !found {
					// forwarded as an argument to a module function that is
					// verified to return its error parameter (e.g. compress(json.Marshal(..)))
					refs := liveReferrers(e)
					fwd := len(refs) > 0
					for _, r := range refs {
						rc, ok := r.(*ssa.Call)
						sc := (*ssa.Function)(nil)
						if ok {
							sc = rc.Call.StaticCallee()
						}
						if sc == nil || !inModule(sc) || !instrDominates(rc, s) {
							fwd = false
							break
						}
						okp := false
						for ai, a := range rc.Call.Args {
							if a == e && ai < len(sc.Params) && errflowFrom(c.P, sc.Params[ai], &errflowCfg{}, 0).ok {
								okp = true
							}
						}
						if !okp {
							fwd = false
						}
					}
					if fwd {
						c.ok(rule, inst, s.Pos(), "error is forwarded to a module function verified to return it, whose own error is tested")
						continue
					}
				}
				c.check(rule, inst, s.Pos(), found, "succeed is dominated by the nil-test of this error", "cacheEntry.succeed is reachable without the error of "+cn+" having been tested nil: a failed/truncated query would be cached as a success")
			}
			// size cap
			sz := false
			for _, g := range guards {
				b, ok := g.v.(*ssa.BinOp)
				if !ok {
					continue
				}
				xMax := isFieldLoad(b.X, "z/web.Opts.MaxResponseBytes")
				yMax := isFieldLoad(b.Y, "z/web.Opts.MaxResponseBytes")
				if !xMax && !yMax {
					continue
				}
				op := b.Op
				if xMax { // Max op len  -> len op' Max
					switch op {
					case token.LSS:
						op = token.GTR
					case token.LEQ:
						op = token.GEQ
					case token.GTR:
						op = token.LSS
					case token.GEQ:
						op = token.LEQ
					}
				}
				// within-limit holds on: (len > Max)=false, (len >= Max)=false, (len <= Max)=true, (len < Max)=true
				if ((op == token.GTR || op == token.GEQ) && !g.pos) || ((op == token.LEQ || op == token.LSS) && g.pos) {
					sz = true
				}
			}
			c.check(rule, "execQuery: succeed under size cap", s.Pos(), sz, "succeed is dominated by the within-limit side of the MaxResponseBytes comparison", "cacheEntry.succeed is reachable without the response size having been tested against MaxResponseBytes")
		}
	}
	// b2/b3: queryCluster
	qc := c.need(rule, "(*z.DB).queryCluster")
	if qc == nil {
		return
	}
	// the closure that increments NumSuccessfulPartitions
	var finishFn, failFn *ssa.Function
	for _, f := range withAnon(qc)[1:] {
		c.touch(f)
		if len(fieldStores(f, "z/common.QueryStats.NumSuccessfulPartitions")) > 0 {
			finishFn = f
		}
		for _, in := range instrs(f) {
			if c13Cfg.sinkInstr(in) {
				failFn = f
			}
		}
	}
	if finishFn == nil || failFn == nil {
		c.undecided(rule, "queryCluster bookkeeping closures", qc.Pos(), "cannot find the closure that increments QueryStats.NumSuccessfulPartitions and/or the one that records missing partitions")
		return
	}
	for _, st := range fieldStores(finishFn, "z/common.QueryStats.NumSuccessfulPartitions") {
		ok := false
		for _, g := range guardsOf(st.Block()) {
			if x, nn, isNil := nilTest(g); isNil && !nn && isFieldLoad(x, "z.remoteResult.err") {
				ok = true
			}
		}
		c.check(rule, "queryCluster: NumSuccessfulPartitions++ under result.err == nil", st.Pos(), ok, "increment is dominated by result.err == nil", "NumSuccessfulPartitions is incremented without result.err having been tested nil: a failed partition would count as successful")
	}
	// b3: at the call of finishFn in queryCluster, on the path where result.err != nil, fail must have been called
	fin := callsTo(qc, short(finishFn.String()))
	c.floor(rule, "calls of the finish closure", len(fin), 1)
	for _, fc := range fin {
		// find a nil test on remoteResult.err whose non-nil edge leads to a fail call and which dominates fc
		ok := false
		for _, b := range qc.Blocks {
			i := ifOf(b)
			if i == nil || !b.Dominates(fc.Block()) {
				continue
			}
			cv, pol := unNot(i.Cond, true)
			x, nn, isNil := nilTest(atom{cv, pol})
			if !isNil || !isFieldLoad(x, "z.remoteResult.err") {
				continue
			}
			// non-nil successor
			s := b.Succs[0]
			if !nn {
				s = b.Succs[1]
			}
			// every path from s to fc's block passes a call to failFn
			var via []ssa.Instruction
			for _, fcall := range callsTo(qc, short(failFn.String())) {
				via = append(via, fcall)
			}
			avoid := blockSet{}
			for _, v := range via {
				avoid[v.Block()] = true
			}
			if avoid[s] || !reach([]*ssa.BasicBlock{s}, avoid, nil)[fc.Block()] {
				ok = true
			}
		}
		c.check(rule, "queryCluster: failed final result reaches missing-partition bookkeeping", fc.Pos(), ok, "on the result.err != nil side every path to finish() passes fail()", "a final partition result with err != nil can reach finish() without the partition being recorded as missing")
	}
	// b4: timeout case: range over the pending map, body always calls fail, and then returns
	okT := false
	var tpos = qc.Pos()
	for _, b := range qc.Blocks {
		if b.Comment != "rangeiter.loop" {
			continue
		}
		body := b.Succs[0]
		if bodyAlwaysCalls(body, b, short(failFn.String())) {
			// the loop exit must reach a Return without re-entering the select loop
			okT = true
			tpos = b.Instrs[0].Pos()
		}
	}
	c.check(rule, "queryCluster: partitions pending at timeout are recorded missing", tpos, okT, "the timeout case ranges over the pending partitions and calls fail() for each", "no loop over the pending partitions that records each as missing was found in the timeout path")
}

func bodyAlwaysCalls(body, header *ssa.BasicBlock, callee string) bool {
	seen := map[*ssa.BasicBlock]bool{}
	var walk func(b *ssa.BasicBlock) bool
	walk = func(b *ssa.BasicBlock) bool {
		if b == header {
			return false
		}
		if seen[b] {
			return true
		}
		seen[b] = true
		for _, in := range b.Instrs {
			if ci, ok := in.(ssa.CallInstruction); ok && isCall(ci, callee) {
				return true
			}
			if _, ok := in.(*ssa.Return); ok {
				return false
			}
		}
		if len(b.Succs) == 0 {
			return false
		}
		for _, s := range b.Succs {
			if !walk(s) {
				return false
			}
		}
		return true
	}
	return walk(body)
}

// ruleC13d: the failure report a follower embeds in its final
// RemoteQueryResult (Error together with EndOfResults) is examined by every
// receiver before EndOfResults ends the receive loop.
func ruleC13d(c *Ctx) {
	const rule = "C13.d"
	c.describe(rule, "dom (must-pass): in every function that ends a receive loop on RemoteQueryResult.EndOfResults, each path from the function entry to the EndOfResults==true edge passes the test of RemoteQueryResult.Error against \"\" whose non-empty side builds the error; receivers on streams whose sender never sets Error are exempt (checked: the sender has no store to that field)")
	isFieldTest := func(i *ssa.If, key string) bool {
		v, _ := unNot(i.Cond, true)
		if isFieldLoad(v, key) {
			return true
		}
		if b, ok := v.(*ssa.BinOp); ok && (b.Op == token.EQL || b.Op == token.NEQ) {
			if isFieldLoad(b.X, key) || isFieldLoad(b.Y, key) {
				return true
			}
		}
		return false
	}
	// senders: which functions store a non-constant / non-empty value into RemoteQueryResult.Error
	errorSetters := map[string]bool{}
	for _, fn := range c.P.ModFns {
		for _, st := range fieldStores(fn, "z/rpc.RemoteQueryResult.Error") {
			if s, isC := constString(st.Val); isC && s == "" {
				continue
			}
			errorSetters[stableName(fn)] = true
		}
	}
	n := 0
	for _, fn := range c.P.ModFns {
		var endTests, errTests []*ssa.If
		for _, b := range fn.Blocks {
			if i := ifOf(b); i != nil {
				if isFieldTest(i, "z/rpc.RemoteQueryResult.EndOfResults") {
					endTests = append(endTests, i)
				}
				if isFieldTest(i, "z/rpc.RemoteQueryResult.Error") {
					errTests = append(errTests, i)
				}
			}
		}
		if len(endTests) == 0 {
			continue
		}
		c.touch(fn)
		n++
		inst := stableName(fn) + ": Error examined before EndOfResults ends the loop"
		if stableName(fn) == "(*z/rpc.client).Query$fn" {
			// exemption with machine-checked side condition
			srv := c.P.Func("(*z/rpc/server.server).Query")
			sets := false
			if srv != nil {
				for _, f := range withAnon(srv) {
					if len(fieldStores(f, "z/rpc.RemoteQueryResult.Error")) > 0 {
						sets = true
					}
				}
			}
			c.check(rule, inst, endTests[0].Pos(), srv != nil && !sets, "exempt: the sender on the query stream, (*server).Query, reports failure by returning the error (gRPC status) and never stores RemoteQueryResult.Error", "the query stream's sender now sets RemoteQueryResult.Error but this receiver ends on EndOfResults without examining it")
			continue
		}
		avoid := blockSet{}
		for _, e := range errTests {
			avoid[e.Block()] = true
		}
		ok := len(errTests) > 0
		for _, t := range endTests {
			if avoid[t.Block()] {
				continue
			}
			if reach([]*ssa.BasicBlock{fn.Blocks[0]}, avoid, nil)[t.Block()] {
				ok = false
			}
		}
		// the non-empty side must construct an error
		built := false
		for _, e := range errTests {
			v, pol := unNot(e.Cond, true)
			nonEmptyIdx := 0
			if b, isB := v.(*ssa.BinOp); isB {
				ne := b.Op == token.NEQ
				if !pol {
					ne = !ne
				}
				if !ne {
					nonEmptyIdx = 1
				}
			}
			s := e.Block().Succs[nonEmptyIdx]
			for _, in := range s.Instrs {
				if call, isC := in.(*ssa.Call); isC && (nonNilErrCallees[calleeName(call)] || calleeName(call) == "github.com/getlantern/errors.New") {
					built = true
				}
			}
		}
		c.check(rule, inst, endTests[0].Pos(), ok && built, "every path to the EndOfResults test passes the Error != \"\" test, whose non-empty side builds an error", "a received RemoteQueryResult can end the loop via EndOfResults without its Error field having been examined (the follower reports a failed query as EndOfResults+Error in one message): the partition would be counted as successful")
	}
	c.floor(rule, "receivers ending on EndOfResults", n, 2)
	if len(errorSetters) == 0 {
		c.undecided(rule, "senders of RemoteQueryResult.Error", token.NoPos, "no function stores RemoteQueryResult.Error any more: rule table out of date")
	}
}

// ruleC13e: a deadline that was observed is reported.
func ruleC13e(c *Ctx) {
	const rule = "C13.e"
	c.describe(rule, "errflow from an edge: wherever TimeoutGuard.TimedOut() is tested, every return reachable from its true outcome returns a provably non-nil error (or passes a failure sink)")
	n := 0
	for _, fn := range c.P.ModFns {
		if strings.HasPrefix(pkgOf(fn), "z/cmd") {
			continue
		}
		for _, b := range fn.Blocks {
			i := ifOf(b)
			if i == nil {
				continue
			}
			v, pol := unNot(i.Cond, true)
			call, ok := v.(*ssa.Call)
			if !ok {
				continue
			}
			cn := calleeName(call)
			if cn != "invoke (z/core.TimeoutGuard).TimedOut" && cn != "(*z/core.timeoutGuard).TimedOut" {
				continue
			}
			n++
			c.touch(fn)
			to := b.Succs[0]
			if !pol {
				to = b.Succs[1]
			}
			r := errflowFromEdge(c.P, b, to, c13Cfg)
			inst := stableName(fn) + ": TimedOut()==true is reported"
			if r.ok {
				c.ok(rule, inst, call.Pos(), "every return reachable from the timed-out outcome carries a non-nil error")
			} else {
				c.bad(rule, inst, call.Pos(), "the deadline is observed (TimedOut()==true) but a return without a provably non-nil error is reachable: the caller receives a truncated result as if complete — "+r.reason, r.path...)
			}
		}
	}
	c.floor(rule, "TimedOut() tests", n, 4)
}

// ruleC13f: the leaf consumers (HTTP handler, RPC Query handler) never stop a
// scan silently: their row callbacks return more=false only with an error.
func ruleC13f(c *Ctx) {
	const rule = "C13.f"
	c.describe(rule, "the row callbacks of the leaf consumers (web doQuery, rpc server Query) return more==false only together with a provably non-nil error: a limit that stops the scan is an error, never a silent truncation")
	n := 0
	for _, name := range []string{"(*z/web.handler).doQuery", "(*z/rpc/server.server).Query"} {
		fn := c.need(rule, name)
		if fn == nil {
			continue
		}
		for _, a := range fn.AnonFuncs {
			res := a.Signature.Results()
			if res.Len() != 2 || !isErrorType(res.At(1).Type()) {
				continue
			}
			if b, ok := res.At(0).Type().Underlying().(*types.Basic); !ok || b.Kind() != types.Bool {
				continue
			}
			c.touch(a)
			for _, in := range instrs(a) {
				ret, ok := in.(*ssa.Return)
				if !ok {
					continue
				}
				n++
				more, isC := constBool(ret.Results[0])
				okRet := (isC && more) || provablyNonNilErr(ret.Results[1], ret.Block())
				c.check(rule, stableName(a)+" return at "+itoa(lineOf(c, ret.Pos())-lineOf(c, a.Pos()))+" lines into the callback", ret.Pos(), okRet,
					"returns more==true, or an error that is provably non-nil", "the leaf consumer can return more==false (stopping the scan) without a non-nil error: the truncated rows are then presented/cached as a complete result")
			}
		}
	}
	c.floor(rule, "returns in leaf row callbacks", n, 2)
}

func lineOf(c *Ctx, p token.Pos) int {
	if !p.IsValid() {
		return 0
	}
	return c.P.Fset.Position(p).Line
}

// ruleC13g: universal E1 on the result path — no error returned by a module
// function is dropped in the packages that build, run and serve queries.
var c13DropExceptions = map[string]string{
	"(*z/web.handler).execQuery drops the error of (*z/web.cache).put": "a failed cache write leaves the entry pending (the client is answered 202/‘still working’); it can never present an incomplete result as a success",
}

func ruleC13g(c *Ctx) {
	const rule = "C13.g"
	c.describe(rule, "errflow E1 (universal): in packages zenodb (query path files), core, planner, rpc, rpc/server and web no error result of a call to a module function is dropped (unused, assigned to _ or an expression statement); logging helpers that return the error they log are exempt")
	pkgs := map[string]bool{"z/core": true, "z/planner": true, "z/rpc": true, "z/rpc/server": true, "z/web": true, "z": true}
	n, nBad := 0, 0
	for _, fn := range c.P.ModFns {
		if !pkgs[pkgOf(fn)] {
			continue
		}
		for _, call := range calls(fn) {
			cc := call.Common()
			if !sigHasError(cc.Signature()) {
				continue
			}
			// module callee (static, interface method declared in the module, or func-typed value)
			isMod := false
			if sc := cc.StaticCallee(); sc != nil {
				isMod = inModule(sc)
			} else if cc.IsInvoke() {
				isMod = cc.Method.Pkg() != nil && strings.HasPrefix(cc.Method.Pkg().Path(), modPath)
			} else {
				isMod = true
			}
			if !isMod {
				continue
			}
			if _, isGo := call.(*ssa.Go); isGo {
				continue
			}
			if _, isDefer := call.(*ssa.Defer); isDefer {
				continue
			}
			n++
			if e, _ := errValueOf(call); e != nil {
				continue
			}
			inst := stableName(fn) + " drops the error of " + calleeName(call)
			if calleeName(call) == "dynamic" {
				inst = stableName(fn) + " drops the error of callback " + dynName(cc.Value)
			}
			if why, ok := c13DropExceptions[inst]; ok {
				c.ok(rule, inst, call.Pos(), "reviewed exception: "+why)
				continue
			}
			if why, ok := c13Exceptions[stableName(fn)+" -> callback "+dynName(cc.Value)+" "+typeStr(cc.Value.Type())]; ok {
				c.ok(rule, inst, call.Pos(), "reviewed exception: "+why)
				continue
			}
			if nf, names := calleesNeverFail(c.P, call); nf {
				c.ok(rule, inst, call.Pos(), "callee(s) never return a non-nil error: "+strings.Join(names, ", "))
				continue
			}
			// immediately followed (same block) by the fatal Panic hook: the process stops anyway
			fatalNext := false
			if b := call.Block(); b != nil {
				after := false
				for _, in := range b.Instrs {
					if in == ssa.Instruction(call) {
						after = true
						continue
					}
					if after && isFatalCall(in) {
						fatalNext = true
					}
				}
			}
			if fatalNext {
				c.ok(rule, inst, call.Pos(), "best-effort call on a path that ends in the fatal Panic hook in the same block")
				continue
			}
			nBad++
			c.bad(rule, inst, call.Pos(), "an error returned by a module function is dropped on the query/serving path")
		}
	}
	c.floor(rule, "error-returning module calls examined", n, 100)
	if nBad == 0 {
		c.ok(rule, "no dropped module errors on the query/serving path", token.NoPos, itoa(n)+" error-returning calls to module functions examined in packages zenodb, core, planner, rpc, rpc/server, web")
	}
}

// ruleC13h: the leader's end of a follower's query stream.
func ruleC13h(c *Ctx) {
	const rule = "C13.h"
	c.describe(rule, "errflow + dom: in the handler that (*server).HandleRemoteQueries registers, (1) every error received from the follower's stream (RecvMsg, or the first receive handed over on the channel) is, whenever it may be non-nil — io.EOF included: the stream ended without the final message — turned into the handler's returned error; (2) a message is used as fields or as a row only after its EndOfResults flag was tested false, so the single final message of a query that failed before announcing fields is not mistaken for the fields message")
	hq := c.need(rule, "(*z/rpc/server.server).HandleRemoteQueries")
	if hq == nil {
		return
	}
	var h *ssa.Function
	for _, a := range hq.AnonFuncs {
		for _, p := range a.Params {
			if typeStr(p.Type()) == "z/core.OnFields" {
				h = a
			}
		}
	}
	if h == nil {
		c.undecided(rule, "registered query handler", hq.Pos(), "no closure with an OnFields parameter found in HandleRemoteQueries")
		return
	}
	c.touch(h)
	n := 0
	for _, in := range instrs(h) {
		var ev ssa.Value
		what := ""
		if call, ok := in.(*ssa.Call); ok && strings.HasSuffix(calleeName(call), ".RecvMsg") {
			ev, what = call, "stream.RecvMsg"
		}
		if u, ok := in.(*ssa.UnOp); ok && u.Op == token.ARROW && isErrorType(u.Type()) {
			ev, what = u, "the first receive's error (channel)"
		}
		if ev == nil {
			continue
		}
		n++
		r := errflowE2(c.P, ev, c13Cfg)
		if r.ok {
			c.ok(rule, "handler: a failed receive ("+what+") fails the partition", in.Pos(), "whenever the receive error may be non-nil the handler returns an error")
		} else {
			c.bad(rule, "handler: a failed receive ("+what+") fails the partition", in.Pos(), "a receive error — e.g. io.EOF when the follower's stream ends without the final message — can end the handler with a nil error: the partition counts as successful although its rows are missing ("+r.reason+")", r.path...)
		}
	}
	c.floor(rule, "receives in the registered handler", n, 2)
	// (2) uses of a message are guarded by EndOfResults == false
	m := 0
	for _, call := range calls(h) {
		isCb := false
		for _, p := range h.Params {
			ts := typeStr(p.Type())
			if (ts == "z/core.OnFields" || ts == "z/core.OnRow" || ts == "z/core.OnFlatRow") && isCallOfParam(call, p) {
				isCb = true
			}
		}
		if !isCb {
			continue
		}
		m++
		guarded := false
		for _, g := range guardsOf(call.Block()) {
			if !g.pos && isFieldLoad(g.v, "z/rpc.RemoteQueryResult.EndOfResults") {
				guarded = true
			}
		}
		c.check(rule, "handler: callback #"+itoa(m)+" runs only for a message that is not the final one", call.Pos(), guarded, "dominated by EndOfResults == false", "a received message is handed on as fields/row without its EndOfResults flag having been tested: the single final message of a query that failed before announcing fields is passed on as nil fields, which queryCluster takes for the partition's successful final result")
	}
	c.floor(rule, "callback calls in the registered handler", m, 3)
}

// ruleC13i: the IN-subqueries run under the very deadline of the outer query.
func ruleC13i(c *Ctx) {
	const rule = "C13.i"
	c.describe(rule, "flow: in planSubQueries' runner the context handed to each sub-query plan's Iterate is the runner's own context parameter — applySubQueryFilters may ignore a sub-query's ErrDeadlineExceeded only because the outer scan re-tests the same deadline on its next row; a sub-query run under a shorter, derived deadline can time out with a partial IN-list while the outer query completes with a nil error")
	ps := c.need(rule, "z/planner.planSubQueries")
	if ps == nil {
		return
	}
	n := 0
	for _, f := range withAnon(ps) {
		for _, call := range calls(f) {
			if calleeName(call) != "invoke (z/core.FlatRowSource).Iterate" {
				continue
			}
			n++
			ctxArg := call.Common().Args[0]
			v := resolveVal(c.P, ctxArg, nil)
			// the runner is the closure that takes a context.Context parameter
			ok := false
			if p, isP := v.(*ssa.Parameter); isP && typeStr(p.Type()) == "context.Context" && isWithin(f, p.Parent()) {
				ok = true
			}
			c.check(rule, "sub-queries run under the caller's context", call.Pos(), ok, "sqPlan.Iterate(ctx, …) with the runner's ctx parameter", "the context given to a sub-query plan is not the runner's own context (derived deadline/cancel): the sub-query can hit a deadline the outer scan never sees, its partial IN-list is used (ErrDeadlineExceeded is tolerated there) and the query returns a truncated result with a nil error")
		}
	}
	c.floor(rule, "sub-query Iterate calls in planSubQueries", n, 1)
}
