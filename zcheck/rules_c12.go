package main

import (
	"go/token"
	"go/types"
	"strings"

	"golang.org/x/tools/go/ssa"
)

// C12 — replication is exactly-once per partition across restarts/reconnects.

func isAfterCall(v ssa.Value) (*ssa.Call, bool) {
	call, ok := v.(*ssa.Call)
	if !ok {
		return nil, false
	}
	cn := calleeName(call)
	return call, cn == "(github.com/getlantern/wal.Offset).After"
}

func ruleC12a(c *Ctx, rule string) {
	c.describe(rule, "dom: follower-side dedup — in doFollowLeaders' insert callback an entry is handed to a table only if newOffset.After(that table's prior offset), the table's offset is advanced only in the select case of the successful hand-over, and an entry a table has already seen skips to the next table (the loop continues) instead of ending delivery for the remaining tables")
	fn := c.need(rule, "(*z.DB).doFollowLeaders")
	if fn == nil {
		return
	}
	var cb *ssa.Function
	for _, a := range fn.AnonFuncs {
		for _, in := range instrs(a) {
			if sel, ok := in.(*ssa.Select); ok {
				for _, st := range sel.States {
					if st.Dir == 1 && typeStr(st.Chan.Type()) == "chan *z.walRead" { // send
						cb = a
					}
				}
			}
		}
	}
	if cb == nil {
		c.undecided(rule, "doFollowLeaders insert callback", fn.Pos(), "no closure with a select-send of *walRead found")
		return
	}
	c.touch(cb)
	var sel *ssa.Select
	sendIdx := -1
	for _, in := range instrs(cb) {
		if s, ok := in.(*ssa.Select); ok {
			for i, st := range s.States {
				if st.Dir == 1 && typeStr(st.Chan.Type()) == "chan *z.walRead" {
					sel = s
					sendIdx = i
				}
			}
		}
	}
	// guard: After(newOffset, prior)
	var newOff *ssa.Parameter
	for _, p := range cb.Params {
		if typeStr(p.Type()) == "github.com/getlantern/wal.Offset" {
			newOff = p
		}
	}
	guarded := false
	var afterIf condIf
	for _, ci := range findIfs(cb, func(v ssa.Value) bool {
		call, ok := isAfterCall(v)
		return ok && newOff != nil && call.Call.Args[0] == ssa.Value(newOff)
	}) {
		if edgeDominates(ci.i, ci.pol, sel.Block()) {
			guarded = true
			afterIf = ci
		}
	}
	c.check(rule, "an entry is handed over only if newer than the table's offset", sel.Pos(), guarded, "the select-send is dominated by newOffset.After(priorOffset)", "entries are handed to a table without comparing against the table's last seen offset: a replay after reconnect is applied twice")
	// offset store only in the successful-send case
	okStore := false
	nStore := 0
	for _, in := range instrs(cb) {
		mu, ok := in.(*ssa.MapUpdate)
		if !ok || newOff == nil || mu.Value != ssa.Value(newOff) {
			continue
		}
		nStore++
		// the block is reached via select index == sendIdx
		for _, g := range guardsOf(mu.Block()) {
			if b, isB := g.v.(*ssa.BinOp); isB && b.Op == token.EQL && g.pos {
				if ex, isEx := b.X.(*ssa.Extract); isEx && ex.Tuple == ssa.Value(sel) && ex.Index == 0 {
					if k, isK := constInt(b.Y); isK && int(k) == sendIdx {
						okStore = true
					}
				}
			}
		}
	}
	c.check(rule, "the table's offset advances only after a successful hand-over", sel.Pos(), okStore && nStore == 1, "offsets[source] = newOffset is in the select case of the send", "the follower records an entry as seen although the hand-over to the table was cancelled/stopped (the entry is then skipped on replay: loss), or advances it elsewhere")
	// not-newer branch continues with the next table
	if guarded {
		l := innermostLoop(cb, afterIf.i.Block())
		s := afterIf.succFor(false)
		okCont := l != nil && reach([]*ssa.BasicBlock{s}, nil, nil)[l.header]
		retBeforeHeader := false
		if l != nil {
			for b := range reach([]*ssa.BasicBlock{s}, blockSet{l.header: true}, nil) {
				if _, isR := b.Instrs[len(b.Instrs)-1].(*ssa.Return); isR {
					retBeforeHeader = true
				}
			}
		}
		c.check(rule, "an already-seen entry skips to the next table", afterIf.i.Pos(), okCont && !retBeforeHeader, "the not-newer outcome continues the loop over tables", "when one table has already seen an entry the callback returns instead of offering it to the remaining tables: a table that lags behind (different flush times before a restart) loses the entry")
	}
}

func ruleC12b(c *Ctx, rule string) {
	c.describe(rule, "dom: leader-side filter in processFollowers — a follower is included for an entry iff offset.After(spec.offset) read before the advance; from the advance (spec.offset = offset) the include comparison is not reachable within the same entry; the advance does not depend on wherePassed")
	fn := c.need(rule, "(*z.DB).processFollowers")
	if fn == nil {
		return
	}
	var advance []*ssa.Store
	for _, st := range fieldStores(fn, "z.followSpec.offset") {
		advance = append(advance, st)
	}
	var appends []ssa.CallInstruction
	for _, call := range callsTo(fn, "builtin append") {
		if typeStr(call.Common().Args[0].Type()) == "[]z/common.FollowerID" {
			appends = append(appends, call)
		}
	}
	if len(advance) != 1 || len(appends) != 1 {
		c.undecided(rule, "processFollowers include/advance sites", fn.Pos(), "expected one store to followSpec.offset and one append to includedFollowers in processFollowers (found "+itoa(len(advance))+"/"+itoa(len(appends))+")")
		return
	}
	incl := appends[0]
	gAfter, gWhere := false, false
	for _, g := range guardsOf(incl.Block()) {
		if call, ok := isAfterCall(g.v); ok && g.pos && isFieldLoad(call.Call.Args[1], "z.followSpec.offset") {
			gAfter = true
		}
		if g.pos {
			if lk, ok := g.v.(*ssa.Lookup); ok && isFieldLoad(lk.X, "z.partitionResult.wherePassed") {
				gWhere = true
			}
		}
	}
	c.check(rule, "a follower is included only for entries newer than its offset", incl.Pos(), gAfter, "guarded by offset.After(spec.offset)", "followers are included without comparing the entry's offset with the follower's offset: entries before the follower's resume point are sent again")
	c.check(rule, "a follower is included only if the table's WHERE passed", incl.Pos(), gWhere, "guarded by wherePassed", "entries rejected by the table's WHERE are replicated")
	adv := advance[0]
	gAdvAfter, advWhere := false, false
	for _, g := range guardsOf(adv.Block()) {
		if call, ok := isAfterCall(g.v); ok && g.pos && isFieldLoad(call.Call.Args[1], "z.followSpec.offset") {
			gAdvAfter = true
		}
		if lk, ok := g.v.(*ssa.Lookup); ok && isFieldLoad(lk.X, "z.partitionResult.wherePassed") {
			advWhere = true
		}
	}
	c.check(rule, "a follower's offset only moves forward", adv.Pos(), gAdvAfter, "spec.offset = offset under offset.After(spec.offset)", "the leader can move a follower's offset backwards")
	c.check(rule, "the offset advances whether or not WHERE passed", adv.Pos(), !advWhere, "the advance is not conditioned on wherePassed", "the follower's offset is only advanced for entries that pass WHERE")
	// order: include decision before advance within one entry: from adv, incl unreachable without passing the outer per-table loop header
	lIncl := innermostLoopOuterWithin(fn, incl.Block(), adv.Block())
	okOrder := true
	if lIncl != nil {
		if reach(adv.Block().Succs, blockSet{lIncl.header: true}, nil)[incl.Block()] {
			okOrder = false
		}
	}
	c.check(rule, "the include decision reads the offset before it is advanced", adv.Pos(), okOrder && lIncl != nil, "from the advance the include comparison is reachable only through the next table/entry", "the follower's offset is advanced before the include decision for the same entry: the current entry is never sent")
}

// innermostLoopOuterWithin: the smallest loop containing both blocks.
func innermostLoopOuterWithin(fn *ssa.Function, a, b *ssa.BasicBlock) *loopInfo {
	var best *loopInfo
	for _, l := range loopsOf(fn) {
		l := l
		if l.body[a] && l.body[b] && (best == nil || len(l.body) < len(best.body)) {
			best = &l
		}
	}
	return best
}

func ruleC12c(c *Ctx, rule string) {
	c.describe(rule, "pathstate (2 symbols, ordering): when a follower (re)joins, the leader builds a fresh followSpec whose offset is max(t.Offsets[leader id], f.EarliestOffset) under wal.Offset.After — computed only from what the follower asked for, never from what the leader offered earlier")
	fn := c.need(rule, "(*z.DB).processFollowers")
	if fn == nil {
		return
	}
	var oj *ssa.Function
	for _, a := range fn.AnonFuncs {
		for _, in := range instrs(a) {
			if al, ok := in.(*ssa.Alloc); ok && typeStr(al.Type()) == "*z.followSpec" {
				oj = a
			}
		}
	}
	if oj == nil {
		c.bad(rule, "onFollowerJoined builds a fresh followSpec", fn.Pos(), "no closure allocating a followSpec found (an existing spec may be reused on re-join: its offset reflects what the leader offered, not what the follower has)")
		return
	}
	c.touch(oj)
	n := 0
	for _, st := range fieldStores(oj, "z.followSpec.offset") {
		n++
		fa := st.Addr.(*ssa.FieldAddr)
		_, fresh := fa.X.(*ssa.Alloc)
		// value: phi of {Lookup in PartitionTable.Offsets, Follow.EarliestOffset}, EarliestOffset taken under EarliestOffset.After(lookup)
		srcOK := valueOnlyFrom(st.Val, func(v ssa.Value) bool {
			if lk, ok := v.(*ssa.Lookup); ok && isFieldLoad(lk.X, "z/common.PartitionTable.Offsets") {
				return isFieldLoad(lk.Index, "z.DBOpts.ID")
			}
			return isFieldLoad(v, "z/common.Follow.EarliestOffset")
		})
		maxOK := false
		if p, ok := st.Val.(*ssa.Phi); ok {
			for i, e := range p.Edges {
				if isFieldLoad(e, "z/common.Follow.EarliestOffset") {
					from := p.Block().Preds[i]
					if i2 := ifOf(from); i2 != nil {
						if call, ok := isAfterCall(i2.Cond); ok && isFieldLoad(call.Call.Args[0], "z/common.Follow.EarliestOffset") && from.Succs[0] == p.Block() {
							maxOK = true
						}
					}
					for _, g := range guardsOf(from) {
						if call, ok := isAfterCall(g.v); ok && g.pos && isFieldLoad(call.Call.Args[0], "z/common.Follow.EarliestOffset") {
							maxOK = true
						}
					}
				}
			}
		}
		c.check(rule, "join offset = max(requested table offset, EarliestOffset) on a fresh spec", st.Pos(), fresh && srcOK && maxOK, "fresh followSpec; offset from t.Offsets[db.opts.ID] replaced by f.EarliestOffset only when later", "the offset a (re)joining follower resumes from is not computed purely from its request (t.Offsets[leader id], EarliestOffset) on a fresh spec: after a reconnect the leader may skip entries it had merely queued for the dead connection")
	}
	c.floor(rule, "followSpec.offset stores in onFollowerJoined", n, 1)
	// the spec registered is the fresh one
	okReg := false
	for _, in := range instrs(oj) {
		if mu, ok := in.(*ssa.MapUpdate); ok && typeStr(mu.Map.Type()) == "map[z/common.FollowerID]*z.followSpec" {
			_, okReg = mu.Value.(*ssa.Alloc)
		}
	}
	c.check(rule, "the fresh spec replaces any earlier one for the follower", oj.Pos(), okReg, "specs[f.FollowerID] = spec", "the freshly computed spec is not what gets registered")
}

func ruleC12d(c *Ctx, rule string) {
	c.describe(rule, "dom: reconnect — in (*Server).followSource the position to resume from (f.EarliestOffset) is advanced only after insert returned nil for that entry")
	fn := c.need(rule, "(*z/server.Server).followSource")
	if fn == nil {
		return
	}
	n := 0
	for _, f := range withAnon(fn) {
		for _, st := range fieldStores(f, "z/common.Follow.EarliestOffset") {
			n++
			ok := false
			for _, g := range guardsOf(st.Block()) {
				if x, nn, isNil := nilTest(g); isNil && !nn {
					if call, isC := strip(x).(*ssa.Call); isC && call.Call.StaticCallee() == nil && dynName(call.Call.Value) == "insert" {
						ok = true
					}
				}
			}
			c.check(rule, "EarliestOffset advances only after a successful insert", st.Pos(), ok, "dominated by insertErr == nil", "the resume position is advanced although the entry was not accepted locally: after a reconnect it is never requested again")
		}
	}
	c.floor(rule, "stores to Follow.EarliestOffset in followSource", n, 1)
}

func ruleC12e(c *Ctx, rule string) {
	c.describe(rule, "reg: offsets are kept per leader — the memstore offset map is keyed by the insert's source at its only write, and (*table).skip forwards (offset, source) unchanged")
	if pi := c.need(rule, "(*z.rowStore).processInserts"); pi != nil {
		ok := false
		n := 0
		for _, fn := range c.P.ModFns {
			for _, in := range instrs(fn) {
				if mu, isM := in.(*ssa.MapUpdate); isM && isFieldLoad(mu.Map, "z.memstore.offsetsBySource") {
					n++
					ok = isFieldLoad(mu.Key, "z.insert.source") && isFieldLoad(mu.Value, "z.insert.offset")
				}
			}
		}
		c.check(rule, "memstore offsets keyed by the entry's source", pi.Pos(), ok && n == 1, "offsetsBySource[insert.source] = insert.offset", "the memstore's offset map is not updated as [insert.source] = insert.offset: offsets of different leaders overwrite each other")
	}
	if sk := c.need(rule, "(*z.table).skip"); sk != nil && len(sk.Params) == 3 {
		ok := false
		for _, in := range instrs(sk) {
			if st, isS := in.(*ssa.Store); isS {
				if fa, isF := st.Addr.(*ssa.FieldAddr); isF {
					if f := fieldVar(fa.X.Type(), fa.Field); f != nil && f.Name() == "source" && st.Val == ssa.Value(sk.Params[2]) {
						ok = true
					}
				}
			}
		}
		okOff := false
		for _, in := range instrs(sk) {
			if st, isS := in.(*ssa.Store); isS {
				if fa, isF := st.Addr.(*ssa.FieldAddr); isF {
					if f := fieldVar(fa.X.Type(), fa.Field); f != nil && f.Name() == "offset" && st.Val == ssa.Value(sk.Params[1]) {
						okOff = true
					}
				}
			}
		}
		c.check(rule, "skip forwards (offset, source)", sk.Pos(), ok && okOff, "insert{nil,nil,nil,offset,source}", "skip does not forward its offset and source unchanged")
	}
	_ = token.NoPos
}

func init() {
	register(&PropSpec{
		ID:          "C12",
		Explanation: "Decides the structural clause 'every hand-over of an entry is guarded by an offset comparison and the offset is advanced only after the hand-over succeeded, per source': follower-side dedup and per-table continuation, leader-side include/advance ordering, the join offset as a max over the follower's request on a fresh spec, reconnect position advanced only after a successful insert, per-source offset keys, and the restart resume wiring shared with C02. Added clauses: every followed table is announced; follower.submit hands over with a blocking send; leader and follower hash the same key order (= C10.c). Further clauses: makeFollows takes the per-source minimum of the tables' offsets; worker results are re-ordered with wal.Offset.After.",
		NotDecided:  []string{"behaviour under actual fault sequences and timing (30 s/5 s/10 s start-up timers)", "gRPC delivery", "entries larger than 2 MB are discarded by follower.read (reading note)"},
		Assumptions: []string{"wal.Offset.After is a strict total order on offsets of one source"},
		Rules: []func(*Ctx){func(c *Ctx) { ruleC12a(c, "C12.a") }, func(c *Ctx) { ruleC12b(c, "C12.b") }, func(c *Ctx) { ruleC12c(c, "C12.c") }, func(c *Ctx) { ruleC12d(c, "C12.d") }, func(c *Ctx) { ruleC12e(c, "C12.e") }, func(c *Ctx) { ruleC02f(c, "C12.f") }, func(c *Ctx) { ruleC12h(c, "C12.h") }, func(c *Ctx) {
			c.describe("C12.g", "dom: a rejected entry still advances the offset (t.skip)")
			ruleSkipOnReject(c, "C12.g")
		}, func(c *Ctx) { ruleC12k(c, "C12.k") }, func(c *Ctx) { ruleC12l(c, "C12.l") }, func(c *Ctx) { ruleC12m(c, "C12.m") }, func(c *Ctx) {
			c.describe("C12.j", "= C10.c: leader and follower hash the same partition keys in the same order (the follower's table.PartitionBy is the sorted list it announced)")
			ruleC10c(c, "C12.j")
		}},
	})
}

// ruleC12h: every table a follower follows is announced to the leaders.
func ruleC12h(c *Ctx, rule string) {
	c.describe(rule, "dom (pairing): in followLeaders every subscriber that is added to the set of followed tables is also registered in the partitions announced to the leaders (table name, partition keys, offsets) — a table that joins later must not depend on what the leader sends for the other tables")
	fl := c.need(rule, "(*z.DB).followLeaders")
	if fl == nil {
		return
	}
	n := 0
	for _, f := range withAnon(fl) {
		for _, call := range callsTo(f, "builtin append") {
			if typeStr(call.Common().Args[0].Type()) != "[]*z.table" {
				continue
			}
			n++
			var regs []ssa.Instruction
			for _, in := range instrs(f) {
				if mu, ok := in.(*ssa.MapUpdate); ok && typeStr(mu.Map.Type()) == "map[string]*z/common.Partition" {
					regs = append(regs, mu)
				}
				if st, ok := in.(*ssa.Store); ok {
					if fa, isF := st.Addr.(*ssa.FieldAddr); isF {
						if fv := fieldVar(fa.X.Type(), fa.Field); fv != nil && fieldKey(fa.X.Type(), fv) == "z/common.Partition.Tables" {
							regs = append(regs, st)
						}
					}
				}
			}
			ok := len(regs) > 0
			if ok {
				// every way from the append back to the enclosing loop header / to a return passes (or is preceded by) a registration
				pre := false
				for _, r := range regs {
					if instrDominates(r, call) {
						pre = true
					}
				}
				if !pre {
					targets := []*ssa.BasicBlock{}
					if l := innermostLoop(f, call.Block()); l != nil {
						targets = append(targets, l.header)
					}
					for _, b := range f.Blocks {
						if _, isR := b.Instrs[len(b.Instrs)-1].(*ssa.Return); isR {
							targets = append(targets, b)
						}
					}
					avoid := blockSet{}
					for _, r := range regs {
						avoid[r.Block()] = true
					}
					if !avoid[call.Block()] {
						r := reach(call.Block().Succs, avoid, nil)
						for _, t := range targets {
							if r[t] {
								ok = false
							}
						}
					} else {
						// same block: the registration must come after the append
						after := false
						for _, rg := range regs {
							if rg.Block() == call.Block() && idxIn(call.Block(), rg) > idxIn(call.Block(), call) {
								after = true
							}
						}
						ok = after
					}
				}
			}
			c.check(rule, stableName(f)+": a followed table is announced to the leaders", call.Pos(), ok, "the table is registered in the announced partitions on every path", "a table is added to the followed tables without being registered in the partitions announced to the leaders: the leaders do not know its partition keys / WHERE / offsets and send it only what the follower's other tables need")
		}
	}
	c.floor(rule, "appends to the followed tables in followLeaders", n, 1)
}

// ruleC12k: the leader never drops an entry it routed to a live follower.
func ruleC12k(c *Ctx, rule string) {
	c.describe(rule, "dom: (*follower).submit hands an entry to the follower's queue with a blocking send on every path where the follower has not failed — a non-blocking send (select with default) that gives up on a full queue loses the entry, and since processFollowers skips failed followers without closing their stream the follower silently stops receiving")
	sb := c.need(rule, "(*z.follower).submit")
	if sb == nil {
		return
	}
	nSend := 0
	bad := ""
	for _, in := range instrs(sb) {
		switch x := in.(type) {
		case *ssa.Send:
			if isFieldLoad(x.Chan, "z.follower.entries") {
				nSend++
			}
		case *ssa.Select:
			for _, st := range x.States {
				if st.Dir == types.SendOnly && isFieldLoad(st.Chan, "z.follower.entries") {
					nSend++
					if !x.Blocking {
						bad = c.P.Pos(x.Pos())
					}
				}
			}
		}
	}
	if nSend == 0 {
		c.undecided(rule, "follower.submit delivers with a blocking send", sb.Pos(), "no send on follower.entries found in submit")
		return
	}
	c.check(rule, "follower.submit delivers with a blocking send", sb.Pos(), bad == "", "f.entries <- entry blocks until the follower's queue takes the entry", "the send to the follower's queue is non-blocking (select with default at "+bad+"): when the queue is full the entry — and, once the follower is marked failed, every later one — is dropped while the follower's stream stays open, so the follower silently misses data")
}

// ruleC12l: a follower asks each leader to resume from the EARLIEST position any
// of its tables still needs.
func ruleC12l(c *Ctx, rule string) {
	c.describe(rule, "dom: in doFollowLeaders' makeFollows the per-source resume offset is the minimum over the tables' offsets — an entry of the map is replaced only when it is unset or After(the candidate) — and is never built with OffsetsBySource.Advance (the per-source maximum): a table that lags behind the others (flushed earlier before the restart) would otherwise never be sent the entries between its own offset and the newest table's")
	fn := c.need(rule, "(*z.DB).doFollowLeaders")
	if fn == nil {
		return
	}
	var mf *ssa.Function
	for _, a := range withHelpers(c.P, fn) {
		if a == fn || a.Signature.Results().Len() != 1 {
			continue
		}
		if typeStr(a.Signature.Results().At(0).Type()) == "map[int]*z/common.Follow" {
			mf = a
		}
	}
	if mf == nil {
		c.undecided(rule, "makeFollows", fn.Pos(), "no closure/helper returning map[int]*common.Follow found")
		return
	}
	c.touch(mf)
	if adv := callsToDeep(mf, "(z/common.OffsetsBySource).Advance"); len(adv) > 0 {
		c.bad(rule, "makeFollows takes the earliest offset per source", adv[0].Pos(), "the resume offsets are combined with OffsetsBySource.Advance, which keeps the LATEST offset per source: the follower asks the leader to resume after the newest table's position and the tables that are behind never receive the entries in between")
		return
	}
	n, ok := 0, true
	for _, in := range instrs(mf) {
		mu, isMU := in.(*ssa.MapUpdate)
		if !isMU || len(loopsContaining(mf, mu.Block())) < 2 {
			continue // initialisation (outer loop over sources) or not in the tables×sources loops
		}
		if isNilConst(mu.Value) {
			continue
		}
		n++
		// guard: current == nil || current.After(candidate)   (lowered to two branches)
		min := false
		for _, p := range mu.Block().Preds {
			i := ifOf(p)
			if i == nil {
				continue
			}
			v, pol := unNot(i.Cond, p.Succs[0] == mu.Block())
			if call, isAfter := isAfterCall(v); isAfter && pol && sameValue(call.Call.Args[1], mu.Value) {
				min = true
			}
		}
		for _, g := range guardsOf(mu.Block()) {
			if call, isAfter := isAfterCall(g.v); isAfter && g.pos && sameValue(call.Call.Args[1], mu.Value) {
				min = true
			}
		}
		if !min {
			ok = false
		}
	}
	c.check(rule, "makeFollows takes the earliest offset per source", mf.Pos(), ok && n > 0, "an entry is replaced only when unset or After(candidate)", "the per-source resume offset is not the minimum over the tables' offsets: a lagging table loses the entries the other tables have already seen")
}

// ruleC12m: entries are released to followers in WAL order.
func ruleC12m(c *Ctx, rule string) {
	c.describe(rule, "reg: the results of the parallel per-entry workers are put back into WAL order with wal.Offset.After — the total order over (file sequence, position) — not with one component of the offset: sorted by position alone, entries around a WAL segment boundary are released out of order and the per-follower 'newer than the last one sent' filter drops the ones that come late")
	rp := c.need(rule, "(*z.DB).reducePartitionRequests")
	if rp == nil {
		return
	}
	// the comparator: Less of the slice type, or the closure given to sort.Slice
	var less []*ssa.Function
	for fn := range c.P.AllFns {
		if fn.Name() == "Less" && fn.Signature.Recv() != nil && strings.Contains(typeStr(fn.Signature.Recv().Type()), "partitionsResult") && fn.Synthetic == "" && len(fn.Blocks) > 0 {
			less = append(less, fn)
		}
	}
	for _, f := range withAnon(rp) {
		for _, call := range calls(f) {
			if isCall(call, "sort.Slice") || isCall(call, "sort.SliceStable") {
				if mc, ok := call.Common().Args[1].(*ssa.MakeClosure); ok {
					if cl, isF := mc.Fn.(*ssa.Function); isF {
						less = append(less, cl)
					}
				}
			}
		}
	}
	if len(less) == 0 {
		c.undecided(rule, "reducePartitionRequests orders by wal.Offset.After", rp.Pos(), "no comparator for the buffered partition results found")
		return
	}
	for _, f := range less {
		c.touch(f)
		ok, n := true, 0
		for _, in := range instrs(f) {
			r, isR := in.(*ssa.Return)
			if !isR {
				continue
			}
			n++
			if _, isAfter := isAfterCall(strip(r.Results[0])); !isAfter {
				ok = false
			}
		}
		for _, call := range calls(f) {
			cn := calleeName(call)
			if strings.HasSuffix(cn, ".Position") || strings.HasSuffix(cn, ".FileSequence") {
				ok = false
			}
		}
		c.check(rule, "reducePartitionRequests orders by wal.Offset.After", f.Pos(), ok && n > 0, "the comparator returns offset.After(offset)", "the buffered per-entry results are ordered by something other than wal.Offset.After (e.g. the byte position only): across a WAL segment boundary entries reach the followers out of order and the later-released ones are filtered out as already seen")
	}
}
