package main

import (
	"go/constant"
	"go/token"
	"go/types"
	"strings"

	"golang.org/x/tools/go/ssa"
)

// ---------- enumeration ----------

// withAnon returns fn and all functions nested in it.
func withAnon(fn *ssa.Function) []*ssa.Function {
	out := []*ssa.Function{fn}
	for _, a := range fn.AnonFuncs {
		out = append(out, withAnon(a)...)
	}
	return out
}

func instrs(fn *ssa.Function) []ssa.Instruction {
	var out []ssa.Instruction
	for _, b := range fn.Blocks {
		out = append(out, b.Instrs...)
	}
	return out
}

// calls returns all call-like instructions (call, go, defer) in fn.
func calls(fn *ssa.Function) []ssa.CallInstruction {
	var out []ssa.CallInstruction
	for _, in := range instrs(fn) {
		if c, ok := in.(ssa.CallInstruction); ok {
			out = append(out, c)
		}
	}
	return out
}

// calleeName gives the normalised name of what a call site calls:
// static function/method -> its SSA name; interface invoke ->
// "invoke (z/core.RowSource).Iterate"; builtin -> "builtin append";
// otherwise "dynamic".
func calleeName(c ssa.CallInstruction) string {
	cc := c.Common()
	if cc.IsInvoke() {
		return "invoke " + short("("+types.TypeString(cc.Value.Type(), nil)+")."+cc.Method.Name())
	}
	if sc := cc.StaticCallee(); sc != nil {
		if sc.Origin() != nil {
			sc = sc.Origin()
		}
		return short(sc.String())
	}
	if b, ok := cc.Value.(*ssa.Builtin); ok {
		return "builtin " + b.Name()
	}
	return "dynamic"
}

// calleeFuncObj returns the *types.Func for static calls and invokes.
func calleeFuncObj(c ssa.CallInstruction) *types.Func {
	cc := c.Common()
	if cc.IsInvoke() {
		return cc.Method
	}
	if sc := cc.StaticCallee(); sc != nil {
		if f, ok := sc.Object().(*types.Func); ok {
			return f
		}
	}
	return nil
}

// isCall reports whether c calls one of the named callees (normalised names).
func isCall(c ssa.CallInstruction, names ...string) bool {
	n := calleeName(c)
	for _, x := range names {
		if n == x {
			return true
		}
	}
	return false
}

// callsTo returns call sites in fn (not nested functions) calling one of names.
func callsTo(fn *ssa.Function, names ...string) []ssa.CallInstruction {
	var out []ssa.CallInstruction
	for _, c := range calls(fn) {
		if isCall(c, names...) {
			out = append(out, c)
		}
	}
	return out
}

// callsToDeep is callsTo over fn and its nested functions.
func callsToDeep(fn *ssa.Function, names ...string) []ssa.CallInstruction {
	var out []ssa.CallInstruction
	for _, f := range withAnon(fn) {
		out = append(out, callsTo(f, names...)...)
	}
	return out
}

// args returns the call's arguments with the receiver (for static method calls)
// included at index 0, exactly as in ssa.CallCommon.Args.
func args(c ssa.CallInstruction) []ssa.Value { return c.Common().Args }

// ---------- value helpers ----------

// strip removes representation-only wrappers.
func strip(v ssa.Value) ssa.Value {
	for {
		switch x := v.(type) {
		case *ssa.ChangeType:
			v = x.X
		case *ssa.Convert:
			v = x.X
		case *ssa.MakeInterface:
			v = x.X
		case *ssa.ChangeInterface:
			v = x.X
		default:
			return v
		}
	}
}

// cellStores returns the stores into an Alloc/FreeVar cell within fn and nested fns.
func cellStores(root *ssa.Function, cell ssa.Value) []*ssa.Store {
	var out []*ssa.Store
	top := root
	for top.Parent() != nil {
		top = top.Parent()
	}
	for _, f := range withAnon(top) {
		for _, in := range instrs(f) {
			if st, ok := in.(*ssa.Store); ok && sameCell(st.Addr, cell) {
				out = append(out, st)
			}
		}
	}
	return out
}

// sameCell: a is the same cell as b, following free-variable bindings.
func sameCell(a, b ssa.Value) bool {
	return cellRoot(a) == cellRoot(b)
}

// cellRoot resolves a FreeVar to the value bound at the MakeClosure.
func cellRoot(v ssa.Value) ssa.Value {
	for i := 0; i < 10; i++ {
		fv, ok := v.(*ssa.FreeVar)
		if !ok {
			return v
		}
		fn := fv.Parent()
		idx := -1
		for i, x := range fn.FreeVars {
			if x == fv {
				idx = i
			}
		}
		if idx < 0 || fn.Parent() == nil {
			return v
		}
		var bound ssa.Value
		for _, in := range instrs(fn.Parent()) {
			if mc, ok := in.(*ssa.MakeClosure); ok && mc.Fn == fn && idx < len(mc.Bindings) {
				bound = mc.Bindings[idx]
			}
		}
		if bound == nil {
			return v
		}
		v = bound
	}
	return v
}

// deref: if v is a load (*cell) of a cell that has exactly one store, return
// the stored value; else v.
func deref(v ssa.Value) ssa.Value {
	for i := 0; i < 10; i++ {
		u, ok := v.(*ssa.UnOp)
		if !ok || u.Op != token.MUL {
			return v
		}
		root := cellRoot(u.X)
		if _, isAlloc := root.(*ssa.Alloc); !isAlloc {
			return v
		}
		sts := cellStores(u.Parent(), root)
		if len(sts) != 1 {
			return v
		}
		v = sts[0].Val
	}
	return v
}

// root = strip + deref repeatedly.
func root(v ssa.Value) ssa.Value {
	for i := 0; i < 20; i++ {
		n := deref(strip(v))
		if n == v {
			return v
		}
		v = n
	}
	return v
}

func isNilConst(v ssa.Value) bool {
	c, ok := v.(*ssa.Const)
	return ok && c.Value == nil
}

func constInt(v ssa.Value) (int64, bool) {
	c, ok := strip(v).(*ssa.Const)
	if !ok || c.Value == nil || c.Value.Kind() != constant.Int {
		return 0, false
	}
	i, ok := constant.Int64Val(c.Value)
	return i, ok
}

func constBool(v ssa.Value) (bool, bool) {
	c, ok := v.(*ssa.Const)
	if !ok || c.Value == nil || c.Value.Kind() != constant.Bool {
		return false, false
	}
	return constant.BoolVal(c.Value), true
}

func constString(v ssa.Value) (string, bool) {
	c, ok := strip(v).(*ssa.Const)
	if !ok || c.Value == nil || c.Value.Kind() != constant.String {
		return "", false
	}
	return constant.StringVal(c.Value), true
}

// fieldOf: if v is a load of a struct field (or a Field extract), returns the
// struct value/address, the field object.
func fieldOf(v ssa.Value) (base ssa.Value, fld *types.Var, ok bool) {
	switch x := v.(type) {
	case *ssa.UnOp:
		if x.Op == token.MUL {
			if fa, ok := x.X.(*ssa.FieldAddr); ok {
				return fa.X, fieldVar(fa.X.Type(), fa.Field), true
			}
		}
	case *ssa.Field:
		return x.X, fieldVar(x.X.Type(), x.Field), true
	}
	return nil, nil, false
}

func fieldVar(t types.Type, idx int) *types.Var {
	t = t.Underlying()
	if p, ok := t.(*types.Pointer); ok {
		t = p.Elem().Underlying()
	}
	if s, ok := t.(*types.Struct); ok && idx < s.NumFields() {
		return s.Field(idx)
	}
	return nil
}

// fieldName renders "pkg.Type.field" for a field var given the struct type.
func fieldKey(structT types.Type, fld *types.Var) string {
	t := structT
	if p, ok := t.Underlying().(*types.Pointer); ok {
		t = p.Elem()
	}
	if p, ok := t.(*types.Pointer); ok {
		t = p.Elem()
	}
	k := short(types.TypeString(t, nil)) + "." + fld.Name()
	if a, ok := aliasFields[k]; ok {
		return a
	}
	return k
}

// isFieldLoad reports whether v (after strip) loads field key "z.rowStore.memStore".
func isFieldLoad(v ssa.Value, key string) bool {
	b, f, ok := fieldOf(strip(v))
	if !ok || f == nil {
		return false
	}
	return fieldKey(b.Type(), f) == key
}

// fieldStores returns all stores to the given field in fn.
func fieldStores(fn *ssa.Function, key string) []*ssa.Store {
	var out []*ssa.Store
	for _, in := range instrs(fn) {
		st, ok := in.(*ssa.Store)
		if !ok {
			continue
		}
		fa, ok := st.Addr.(*ssa.FieldAddr)
		if !ok {
			continue
		}
		f := fieldVar(fa.X.Type(), fa.Field)
		if f != nil && fieldKey(fa.X.Type(), f) == key {
			out = append(out, st)
		}
	}
	return out
}

// ---------- CFG helpers ----------

type blockSet map[*ssa.BasicBlock]bool

// reach computes blocks reachable from 'from' (inclusive) without entering any
// block in avoid and without traversing edges in cutEdges.
func reach(from []*ssa.BasicBlock, avoid blockSet, cut map[[2]*ssa.BasicBlock]bool) blockSet {
	seen := blockSet{}
	var stack []*ssa.BasicBlock
	for _, b := range from {
		if !avoid[b] && !seen[b] {
			seen[b] = true
			stack = append(stack, b)
		}
	}
	for len(stack) > 0 {
		b := stack[len(stack)-1]
		stack = stack[:len(stack)-1]
		for _, s := range b.Succs {
			if avoid[s] || seen[s] || cut[[2]*ssa.BasicBlock{b, s}] {
				continue
			}
			seen[s] = true
			stack = append(stack, s)
		}
	}
	return seen
}

func idxIn(b *ssa.BasicBlock, in ssa.Instruction) int {
	for i, x := range b.Instrs {
		if x == in {
			return i
		}
	}
	return -1
}

// instrDominates: a is executed before b on every path from entry to b.
func instrDominates(a, b ssa.Instruction) bool {
	if a.Parent() != b.Parent() {
		return false
	}
	ba, bb := a.Block(), b.Block()
	if ba == bb {
		return idxIn(ba, a) < idxIn(bb, b)
	}
	return ba.Dominates(bb)
}

// ifOf returns the If terminating block b, or nil.
func ifOf(b *ssa.BasicBlock) *ssa.If {
	if len(b.Instrs) == 0 {
		return nil
	}
	i, _ := b.Instrs[len(b.Instrs)-1].(*ssa.If)
	return i
}

// edgeDominates: every path from entry to target block t traverses the edge
// (from If block, branch). branch true = Succs[0].
func edgeDominates(i *ssa.If, branch bool, t *ssa.BasicBlock) bool {
	b := i.Block()
	s := b.Succs[1]
	if branch {
		s = b.Succs[0]
	}
	if b.Succs[0] == b.Succs[1] {
		return false
	}
	fn := b.Parent()
	cut := map[[2]*ssa.BasicBlock]bool{{b, s}: true}
	r := reach([]*ssa.BasicBlock{fn.Blocks[0]}, nil, cut)
	return !r[t]
}

// edgeReaches: from the edge (If, branch), can control reach block t without
// passing through a block in avoid (avoid typically holds a loop header)?
func edgeReaches(i *ssa.If, branch bool, t *ssa.BasicBlock, avoid blockSet) bool {
	b := i.Block()
	s := b.Succs[1]
	if branch {
		s = b.Succs[0]
	}
	r := reach([]*ssa.BasicBlock{s}, avoid, nil)
	return r[t]
}

// instrReaches: can control flow from instruction a reach instruction b
// (strictly after a) without entering avoid blocks?
func instrReaches(a, b ssa.Instruction, avoid blockSet) bool {
	if a.Parent() != b.Parent() {
		return false
	}
	ba, bb := a.Block(), b.Block()
	if ba == bb && idxIn(ba, a) < idxIn(bb, b) {
		return true
	}
	r := reach(ba.Succs, avoid, nil)
	return r[bb]
}

// mustPassBetween: every path from instruction a to instruction b passes
// through at least one of the 'via' instructions.
func mustPassBetween(a, b ssa.Instruction, via []ssa.Instruction) bool {
	if a.Parent() != b.Parent() {
		return false
	}
	ba, bb := a.Block(), b.Block()
	ia, ib := idxIn(ba, a), idxIn(bb, b)
	avoid := blockSet{}
	for _, v := range via {
		vb := v.Block()
		iv := idxIn(vb, v)
		if vb == ba && vb == bb && ia < ib {
			if iv > ia && iv < ib {
				return true
			}
			continue
		}
		if vb == ba {
			if iv > ia {
				return true // every path leaving a passes v first
			}
			continue
		}
		if vb == bb {
			if iv < ib {
				// arriving in bb always passes v before b — but only if we
				// enter bb from the top, which is always the case
				return true
			}
			continue
		}
		avoid[vb] = true
	}
	if ba == bb && ia < ib {
		return false // straight line a..b with no via between
	}
	r := reach(ba.Succs, avoid, nil)
	return !r[bb]
}

// loops: natural loop headers and bodies (back edge t->h where h dominates t).
type loopInfo struct {
	header *ssa.BasicBlock
	body   blockSet
}

func loopsOf(fn *ssa.Function) []loopInfo {
	byHeader := map[*ssa.BasicBlock]blockSet{}
	var order []*ssa.BasicBlock
	for _, b := range fn.Blocks {
		for _, s := range b.Succs {
			if s.Dominates(b) {
				body, ok := byHeader[s]
				if !ok {
					body = blockSet{s: true}
					byHeader[s] = body
					order = append(order, s)
				}
				// add all blocks that reach b without passing s
				var stack []*ssa.BasicBlock
				if !body[b] {
					body[b] = true
					stack = append(stack, b)
				}
				for len(stack) > 0 {
					x := stack[len(stack)-1]
					stack = stack[:len(stack)-1]
					for _, p := range x.Preds {
						if !body[p] {
							body[p] = true
							stack = append(stack, p)
						}
					}
				}
			}
		}
	}
	var out []loopInfo
	for _, h := range order {
		out = append(out, loopInfo{h, byHeader[h]})
	}
	return out
}

// inLoop reports the innermost loop containing block b (nil if none).
func innermostLoop(fn *ssa.Function, b *ssa.BasicBlock) *loopInfo {
	var best *loopInfo
	ls := loopsOf(fn)
	for i := range ls {
		l := &ls[i]
		if l.body[b] && (best == nil || len(l.body) < len(best.body)) {
			best = l
		}
	}
	return best
}

func loopsContaining(fn *ssa.Function, b *ssa.BasicBlock) []loopInfo {
	var out []loopInfo
	for _, l := range loopsOf(fn) {
		if l.body[b] {
			out = append(out, l)
		}
	}
	return out
}

// ---------- conditions ----------

// An atom is a primitive boolean condition with polarity.
type atom struct {
	v   ssa.Value // the boolean SSA value (BinOp, Call, Extract, load, ...)
	pos bool
}

// guardsOf returns the atoms known to hold when control is at block t: for
// every If whose one edge dominates t, the (condition, polarity) — with `!x`
// unwrapped.
func guardsOf(t *ssa.BasicBlock) []atom {
	fn := t.Parent()
	var out []atom
	for _, b := range fn.Blocks {
		i := ifOf(b)
		if i == nil {
			continue
		}
		for _, br := range []bool{true, false} {
			if edgeDominates(i, br, t) {
				v, p := unNot(i.Cond, br)
				out = append(out, expandShortCircuit(atom{v, p}, 0)...)
			}
		}
	}
	return out
}

// expandShortCircuit: a && b (|| likewise) used as a value is lowered to
// phi[false, …, b]; when that phi is known true, control came through the edge
// carrying b, so b holds and so does every guard of that edge's source block.
func expandShortCircuit(a atom, depth int) []atom {
	out := []atom{a}
	ph, ok := a.v.(*ssa.Phi)
	if !ok || depth > 4 || typeStr(ph.Type()) != "bool" {
		return out
	}
	idx := -1
	for i, e := range ph.Edges {
		if cb, isC := constBool(e); isC && cb == !a.pos {
			continue // this edge yields the opposite value
		}
		if idx >= 0 {
			return out // more than one edge can yield the value
		}
		idx = i
	}
	if idx < 0 {
		return out
	}
	e := ph.Edges[idx]
	if _, isC := constBool(e); !isC {
		v, p := unNot(e, a.pos)
		out = append(out, expandShortCircuit(atom{v, p}, depth+1)...)
	}
	pred := ph.Block().Preds[idx]
	// the conditions under which that edge is taken
	if i := ifOf(pred); i != nil && pred.Succs[0] != pred.Succs[1] {
		v, p := unNot(i.Cond, pred.Succs[0] == ph.Block())
		out = append(out, expandShortCircuit(atom{v, p}, depth+1)...)
	}
	out = append(out, guardsOfDepth(pred, depth+1)...)
	return out
}

func guardsOfDepth(t *ssa.BasicBlock, depth int) []atom {
	if depth > 4 {
		return nil
	}
	fn := t.Parent()
	var out []atom
	for _, b := range fn.Blocks {
		i := ifOf(b)
		if i == nil {
			continue
		}
		for _, br := range []bool{true, false} {
			if edgeDominates(i, br, t) {
				v, p := unNot(i.Cond, br)
				out = append(out, expandShortCircuit(atom{v, p}, depth)...)
			}
		}
	}
	return out
}

// unNot strips boolean negations, flipping polarity.
func unNot(v ssa.Value, pol bool) (ssa.Value, bool) {
	for {
		u, ok := v.(*ssa.UnOp)
		if !ok || u.Op != token.NOT {
			return v, pol
		}
		v = u.X
		pol = !pol
	}
}

// isNilTest: does atom a assert "x != nil" (want=true) / "x == nil" (want=false)
// for some x satisfying pred?  Returns matched x.
func nilTest(a atom) (x ssa.Value, nonNil bool, ok bool) {
	b, isBin := a.v.(*ssa.BinOp)
	if !isBin || (b.Op != token.EQL && b.Op != token.NEQ) {
		return nil, false, false
	}
	var other ssa.Value
	if isNilConst(b.Y) {
		other = b.X
	} else if isNilConst(b.X) {
		other = b.Y
	} else {
		return nil, false, false
	}
	nn := b.Op == token.NEQ
	if !a.pos {
		nn = !nn
	}
	return other, nn, true
}

// sameValue: a and b denote the same runtime value (same SSA value, or loads of
// the same single-assignment cell / the same field of the same base).
func sameValue(a, b ssa.Value) bool {
	a, b = strip(a), strip(b)
	if a == b {
		return true
	}
	ra, rb := root(a), root(b)
	if ra == rb {
		return true
	}
	// loads of the same cell
	ua, oka := a.(*ssa.UnOp)
	ub, okb := b.(*ssa.UnOp)
	if oka && okb && ua.Op == token.MUL && ub.Op == token.MUL {
		if sameCell(ua.X, ub.X) {
			return true
		}
		fa, ok1 := ua.X.(*ssa.FieldAddr)
		fb, ok2 := ub.X.(*ssa.FieldAddr)
		if ok1 && ok2 && fa.Field == fb.Field && sameValue(fa.X, fb.X) {
			return true
		}
	}
	return false
}

// extractOf: if v is Extract #k of a call, returns the call and k.
func extractOf(v ssa.Value) (*ssa.Call, int, bool) {
	e, ok := v.(*ssa.Extract)
	if !ok {
		return nil, 0, false
	}
	c, ok := e.Tuple.(*ssa.Call)
	if !ok {
		return nil, 0, false
	}
	return c, e.Index, true
}

// resultOf returns the SSA value for result #k of call c (the call itself if
// single-valued), or nil if not extracted.
func resultOf(c *ssa.Call, k int) ssa.Value {
	sig := c.Call.Signature()
	if sig.Results().Len() == 1 {
		if k == 0 {
			return c
		}
		return nil
	}
	for _, r := range *c.Referrers() {
		if e, ok := r.(*ssa.Extract); ok && e.Index == k {
			return e
		}
	}
	return nil
}

func isErrorType(t types.Type) bool {
	n, ok := t.(*types.Named)
	return ok && n.Obj().Pkg() == nil && n.Obj().Name() == "error"
}

func typeStr(t types.Type) string { return short(types.TypeString(t, nil)) }

func hasPrefixAny(s string, ps ...string) bool {
	for _, p := range ps {
		if strings.HasPrefix(s, p) {
			return true
		}
	}
	return false
}

// anonWithCall finds the nested function of fn (at any depth) that contains a
// call to one of names; nil if none or ambiguous.
func anonWithCall(fn *ssa.Function, names ...string) *ssa.Function {
	var found *ssa.Function
	for _, f := range withAnon(fn)[1:] {
		if len(callsTo(f, names...)) > 0 {
			if found != nil {
				return nil
			}
			found = f
		}
	}
	return found
}

// dataDependsOn: does value v transitively depend (through operands, phis,
// loads of single-function cells) on a value satisfying pred? Bounded DFS.
func dependsOn(v ssa.Value, pred func(ssa.Value) bool) bool {
	seen := map[ssa.Value]bool{}
	var walk func(v ssa.Value, d int) bool
	walk = func(v ssa.Value, d int) bool {
		if v == nil || seen[v] || d > 60 {
			return false
		}
		seen[v] = true
		if pred(v) {
			return true
		}
		if u, ok := v.(*ssa.UnOp); ok && u.Op == token.MUL {
			if rootc := cellRoot(u.X); rootc != nil {
				if _, isAlloc := rootc.(*ssa.Alloc); isAlloc {
					for _, st := range cellStores(u.Parent(), rootc) {
						if walk(st.Val, d+1) {
							return true
						}
					}
				}
			}
		}
		if in, ok := v.(ssa.Instruction); ok {
			for _, op := range in.Operands(nil) {
				if *op != nil && walk(*op, d+1) {
					return true
				}
			}
		}
		return false
	}
	return walk(v, 0)
}

// variadicElems: the values packed into a variadic argument (a slice of a
// freshly allocated array).
func variadicElems(arg ssa.Value) []ssa.Value {
	sl, ok := arg.(*ssa.Slice)
	if !ok {
		return nil
	}
	al, ok := sl.X.(*ssa.Alloc)
	if !ok {
		return nil
	}
	var out []ssa.Value
	for _, r := range *al.Referrers() {
		if ia, ok := r.(*ssa.IndexAddr); ok {
			for _, rr := range *ia.Referrers() {
				if st, ok := rr.(*ssa.Store); ok && st.Addr == ssa.Value(ia) {
					out = append(out, st.Val)
				}
			}
		}
	}
	return out
}

// privateHelperOf: g is a helper of f — in the same package, and all its static
// callers in the module are f (or helpers of f). Used so that an "extract
// method" refactoring does not change what a rule looks at.
func privateHelperOf(P *Prog, g, f *ssa.Function) bool {
	if g == f {
		return true
	}
	if pkgOf(g) != pkgOf(f) {
		return false
	}
	n := 0
	for _, h := range P.ModFns {
		for _, call := range calls(h) {
			if call.Common().StaticCallee() == g {
				n++
				top := h
				for top.Parent() != nil {
					top = top.Parent()
				}
				if top != f {
					return false
				}
			}
		}
	}
	return n > 0
}

// applierOf returns the function in which the memstore is actually updated:
// the unique module function containing a Tree.Update call on memstore.tree.
func ingestApplier(P *Prog) (*ssa.Function, []ssa.CallInstruction) {
	var fn *ssa.Function
	var sites []ssa.CallInstruction
	multi := false
	for _, f := range P.ModFns {
		for _, call := range callsTo(f, "(*z/bytetree.Tree).Update") {
			if isFieldLoad(call.Common().Args[0], "z.memstore.tree") {
				if fn != nil && fn != f {
					multi = true
				}
				fn = f
				sites = append(sites, call)
			}
		}
	}
	if multi {
		return nil, sites
	}
	return fn, sites
}

// callSitesOf: static call sites of g in the module.
func callSitesOf(P *Prog, g *ssa.Function) []ssa.CallInstruction {
	var out []ssa.CallInstruction
	for _, h := range P.ModFns {
		for _, call := range calls(h) {
			if call.Common().StaticCallee() == g {
				out = append(out, call)
			}
		}
	}
	return out
}

// phiLeaves returns the non-phi values a value can take, following phis
// transitively (so a flag updated in a loop — whatever the loop form — yields its
// constants).
func phiLeaves(v ssa.Value) []ssa.Value {
	var out []ssa.Value
	seen := map[ssa.Value]bool{}
	var walk func(v ssa.Value)
	walk = func(v ssa.Value) {
		if seen[v] {
			return
		}
		seen[v] = true
		if p, ok := v.(*ssa.Phi); ok {
			for _, e := range p.Edges {
				walk(e)
			}
			return
		}
		out = append(out, v)
	}
	walk(v)
	return out
}

var callerTopsCache = map[*Prog]map[*ssa.Function]map[*ssa.Function]bool{}

// callerTops: for every module function, the set of top-level functions that
// contain a static call to it.
func callerTops(P *Prog) map[*ssa.Function]map[*ssa.Function]bool {
	if m, ok := callerTopsCache[P]; ok {
		return m
	}
	m := map[*ssa.Function]map[*ssa.Function]bool{}
	for _, h := range P.ModFns {
		top := h
		for top.Parent() != nil {
			top = top.Parent()
		}
		for _, call := range calls(h) {
			if g := call.Common().StaticCallee(); g != nil && inModule(g) {
				if m[g] == nil {
					m[g] = map[*ssa.Function]bool{}
				}
				m[g][top] = true
			}
		}
	}
	callerTopsCache[P] = m
	return m
}

// withHelpers returns fn, the functions nested in it, and — transitively — its
// private helpers: unexported functions/methods of the same package all of whose
// static call sites are inside the set. A rule that asks "does fn do X
// somewhere" looks at this set, so that an extract-method refactoring does not
// change its answer.
func withHelpers(P *Prog, fn *ssa.Function) []*ssa.Function {
	tops := callerTops(P)
	set := map[*ssa.Function]bool{fn: true}
	order := []*ssa.Function{fn}
	for changed := true; changed; {
		changed = false
		for _, f := range order {
			for _, h := range withAnon(f) {
				for _, call := range calls(h) {
					g := call.Common().StaticCallee()
					if g == nil || set[g] || !inModule(g) || g.Parent() != nil || pkgOf(g) != pkgOf(fn) || g.Object() == nil || g.Object().Exported() {
						continue
					}
					all := true
					for t := range tops[g] {
						if !set[t] {
							all = false
						}
					}
					if all {
						set[g] = true
						order = append(order, g)
						changed = true
					}
				}
			}
		}
	}
	var out []*ssa.Function
	for _, f := range order {
		out = append(out, withAnon(f)...)
	}
	return out
}

// instrsH: the instructions of fn, its closures and its private helpers.
func instrsH(P *Prog, fn *ssa.Function) []ssa.Instruction {
	var out []ssa.Instruction
	for _, f := range withHelpers(P, fn) {
		out = append(out, instrs(f)...)
	}
	return out
}

// resolveVal maps a value seen inside a closure or a private helper back to the
// value it stands for in the frame of the anchor function: a parameter of a
// function with a single static call site becomes the actual argument, a captured
// variable becomes its cell, a load of a cell that is stored exactly once becomes
// the stored value. Parameters of stopAt itself are never resolved further.
func resolveVal(P *Prog, v ssa.Value, stopAt *ssa.Function) ssa.Value {
	for i := 0; i < 12; i++ {
		switch x := v.(type) {
		case *ssa.Parameter:
			g := x.Parent()
			if g == stopAt || g.Parent() != nil {
				return v
			}
			sites := callSitesOf(P, g)
			if len(sites) != 1 {
				return v
			}
			idx := -1
			for k, p := range g.Params {
				if p == x {
					idx = k
				}
			}
			a := sites[0].Common().Args
			if idx < 0 || idx >= len(a) || sites[0].Common().IsInvoke() {
				return v
			}
			v = a[idx]
			continue
		case *ssa.FreeVar:
			r := cellRoot(x)
			if r == ssa.Value(x) {
				return v
			}
			v = r
			continue
		case *ssa.UnOp:
			if x.Op == token.MUL {
				cell := cellRoot(x.X)
				if al, ok := cell.(*ssa.Alloc); ok {
					top := al.Parent()
					if sts := cellStores(top, al); len(sts) == 1 {
						v = sts[0].Val
						continue
					}
				}
			}
		}
		return v
	}
	return v
}

// notOf: v is !x (after resolution); returns x resolved.
func notOf(P *Prog, v ssa.Value, stopAt *ssa.Function) (ssa.Value, bool) {
	v = resolveVal(P, v, stopAt)
	if u, ok := v.(*ssa.UnOp); ok && u.Op == token.NOT {
		return resolveVal(P, u.X, stopAt), true
	}
	return nil, false
}

// guardsAcross: the conditions known at block b — those of its own function and,
// when that function is a private helper with a single static call site, those
// holding at the call site (transitively, up to the anchor function).
func guardsAcross(P *Prog, b *ssa.BasicBlock, anchor *ssa.Function) []atom {
	out := guardsOf(b)
	f := b.Parent()
	for i := 0; i < 4 && f != anchor && f.Parent() == nil; i++ {
		sites := callSitesOf(P, f)
		if len(sites) != 1 {
			break
		}
		out = append(out, guardsOf(sites[0].Block())...)
		f = sites[0].Parent()
	}
	return out
}

// dependsOnPath is dependsOn along one enumerated path: a phi contributes only
// the value it took on that path.
func dependsOnPath(p pathAtoms, v ssa.Value, pred func(ssa.Value) bool) bool {
	seen := map[ssa.Value]bool{}
	var walk func(v ssa.Value, d int) bool
	walk = func(v ssa.Value, d int) bool {
		if v == nil || seen[v] || d > 60 {
			return false
		}
		seen[v] = true
		if pred(v) {
			return true
		}
		if ph, ok := v.(*ssa.Phi); ok {
			if nv, has := p.env[ph]; has {
				return walk(nv, d+1)
			}
		}
		if u, ok := v.(*ssa.UnOp); ok && u.Op == token.MUL {
			if rootc := cellRoot(u.X); rootc != nil {
				if _, isAlloc := rootc.(*ssa.Alloc); isAlloc {
					for _, st := range cellStores(u.Parent(), rootc) {
						if walk(st.Val, d+1) {
							return true
						}
					}
				}
			}
		}
		if in, ok := v.(ssa.Instruction); ok {
			for _, op := range in.Operands(nil) {
				if *op != nil && walk(*op, d+1) {
					return true
				}
			}
		}
		return false
	}
	return walk(v, 0)
}

// isAscendingIndexLoop: the loop walks an index upwards by one from the start
// (for i := 0; i < n; i++ — or the lowered form of a range loop).
func isAscendingIndexLoop(l loopInfo) bool {
	for _, in := range l.header.Instrs {
		ph, ok := in.(*ssa.Phi)
		if !ok {
			continue
		}
		start, step := false, false
		for _, e := range ph.Edges {
			if k, isK := constInt(e); isK && (k == 0 || k == -1) {
				start = true
			}
			if b, isB := e.(*ssa.BinOp); isB && b.Op == token.ADD && b.X == ssa.Value(ph) {
				if k, isK := constInt(b.Y); isK && k == 1 {
					step = true
				}
			}
		}
		if start && step {
			return true
		}
	}
	return false
}
