package main

import (
	"fmt"
	"go/token"
	"go/types"
	"sort"

	"golang.org/x/tools/go/callgraph"
	"golang.org/x/tools/go/ssa"
)

// modsum: interprocedural write-effect summaries with origin tracking for
// byte slices ([]byte, encoding.Sequence, bytemap.ByteMap, ...) and containers
// of them ([]encoding.Sequence, core.Vals).
//
// oset: set of origin classes. bit k (k < 60) = "bytes reachable from
// parameter k" (parameters first — receiver included — then free variables);
// bitFresh = allocated in this activation; bitOther = unknown heap.

type oset uint64

const (
	bitFresh  oset = 1 << 62
	bitOther  oset = 1 << 63
	paramMask oset = (1 << 60) - 1
)

func pbit(i int) oset {
	if i >= 60 {
		return bitOther
	}
	return 1 << uint(i)
}

type witness struct {
	pos    token.Pos
	what   string        // "store", "copy", "append", "external <name>", "call <callee>"
	callee *ssa.Function // for calls: the callee whose summary writes
	cparam int           // callee's parameter index
}

type fnSummary struct {
	writes  oset             // parameter bits whose reachable bytes may be written
	rets    []oset           // origins of each result
	wit     map[int]witness  // one witness per written parameter
	unknown map[int][]string // parameter -> external callees of unknown effect that receive it
}

type modsum struct {
	P        *Prog
	sums     map[*ssa.Function]*fnSummary
	callees  map[ssa.CallInstruction][]*ssa.Function
	fns      []*ssa.Function
	iters    int
	wantOrig *ssa.Function
	gotOrig  map[ssa.Value]oset
}

// localOrigins returns the origin sets of fn's values under the final summaries.
func (m *modsum) localOrigins(fn *ssa.Function) map[ssa.Value]oset {
	m.wantOrig = fn
	m.gotOrig = nil
	m.analyse(fn)
	m.wantOrig = nil
	return m.gotOrig
}

func isByteSlice(t types.Type) bool {
	s, ok := t.Underlying().(*types.Slice)
	if !ok {
		return false
	}
	b, ok := s.Elem().Underlying().(*types.Basic)
	return ok && (b.Kind() == types.Uint8 || b.Kind() == types.Byte)
}

func isByteContainer(t types.Type) bool {
	s, ok := t.Underlying().(*types.Slice)
	return ok && isByteSlice(s.Elem())
}

func tracked(t types.Type) bool {
	if isByteSlice(t) || isByteContainer(t) {
		return true
	}
	// pointer to a tracked slice (captured cells)
	if p, ok := t.Underlying().(*types.Pointer); ok {
		return isByteSlice(p.Elem()) || isByteContainer(p.Elem())
	}
	return false
}

// external effect tables (normalised callee names); index = position in
// CallCommon.Args (receiver first for methods).
var extWriters = map[string][]int{
	"(encoding/binary.bigEndian).PutUint16":    {1},
	"(encoding/binary.bigEndian).PutUint32":    {1},
	"(encoding/binary.bigEndian).PutUint64":    {1},
	"(encoding/binary.littleEndian).PutUint16": {1},
	"(encoding/binary.littleEndian).PutUint32": {1},
	"(encoding/binary.littleEndian).PutUint64": {1},
	"io.ReadFull":             {1},
	"io.ReadAtLeast":          {1},
	"invoke (io.Reader).Read": {0},
	"(*bufio.Reader).Read":    {1},
	"(*bytes.Buffer).Read":    {1},
	"(*bytes.Reader).Read":    {1},
	"(*os.File).Read":         {1},
	"crypto/rand.Read":        {0},
	"sort.Sort":               {},
}

// extResultAlias: external callees whose result aliases an argument.
var extResultAlias = map[string]int{
	"bytes.TrimSpace": 0, "bytes.TrimRight": 0, "bytes.TrimLeft": 0, "bytes.Trim": 0,
}

// extPure: external callees known not to write through their slice arguments
// (documented contract). Anything else external that receives a tracked
// parameter-origin slice makes the affected obligation undecided.
var extPurePrefixes = []string{
	"(encoding/binary.bigEndian).Uint", "(encoding/binary.littleEndian).Uint",
	"invoke (io.Writer).Write", "(*bytes.Buffer).Write", "(*bufio.Writer).Write", "(*os.File).Write",
	"(*github.com/golang/snappy.Writer).Write", "invoke (hash.Hash32).Write", "invoke (hash.Hash).Write",
	"bytes.Equal", "bytes.Compare", "bytes.NewReader", "bytes.NewBuffer", "bytes.HasPrefix", "bytes.Index",
	"encoding/hex.", "fmt.", "invoke (github.com/getlantern/golog.Logger).",
	"(github.com/getlantern/bytemap.ByteMap).", "github.com/getlantern/bytemap.",
	"math.", "strconv.", "string", "(*github.com/HdrHistogram/hdrhistogram-go.Histogram).",
	"github.com/HdrHistogram/hdrhistogram-go.", "(*github.com/axiomhq/hyperloglog", "(*github.com/retailnext/hllpp.HLLPP).Add",
	"encoding/binary.Write", "encoding/binary.Read", "(*github.com/getlantern/wal.WAL).Write",
	"invoke (google.golang.org/grpc.ServerStream).SendMsg", "invoke (google.golang.org/grpc.ClientStream).SendMsg",
	"github.com/getlantern/msgpack.", "(*github.com/getlantern/msgpack.",
	"invoke (github.com/getlantern/goexpr.Expr).Eval", "invoke (github.com/getlantern/goexpr.Params).Get",
	"(*sync.", "(*github.com/oxtoacart/bpool.BytePool).Put", "github.com/golang/snappy.Encode", "github.com/golang/snappy.Decode",
	"unicode/utf8.", "bytes.", "encoding/json.", "crypto/", "hash/", "(*encoding/json.",
}

func extIsPure(name string) bool {
	// io.Writer contract: "Write must not modify the slice data, even temporarily"
	if len(name) > 7 && name[len(name)-7:] == ").Write" {
		return true
	}
	for _, p := range extPurePrefixes {
		if len(name) >= len(p) && name[:len(p)] == p {
			return true
		}
	}
	return false
}

func newModsum(P *Prog) *modsum {
	m := &modsum{P: P, sums: map[*ssa.Function]*fnSummary{}, callees: map[ssa.CallInstruction][]*ssa.Function{}}
	var all []*ssa.Function
	for fn := range P.AllFns {
		// module functions including synthetic wrappers (promoted methods,
		// bound-method closures, thunks) so that dynamic calls resolve to bodies
		if len(fn.Blocks) > 0 && (inModule(fn) || wrapperOfModule(fn)) {
			all = append(all, fn)
		}
	}
	sort.Slice(all, func(i, j int) bool {
		if all[i].Pos() != all[j].Pos() {
			return all[i].Pos() < all[j].Pos()
		}
		return all[i].String() < all[j].String()
	})
	for _, fn := range all {
		m.fns = append(m.fns, fn)
		m.sums[fn] = &fnSummary{rets: make([]oset, fn.Signature.Results().Len()), wit: map[int]witness{}, unknown: map[int][]string{}}
	}
	// dynamic call resolution from the call graph
	cg := P.CG()
	for _, fn := range m.fns {
		node := cg.Nodes[fn]
		if node == nil {
			continue
		}
		for _, e := range node.Out {
			m.addEdge(e)
		}
	}
	m.solve()
	return m
}

func (m *modsum) addEdge(e *callgraph.Edge) {
	if e.Site == nil {
		return
	}
	if e.Site.Common().StaticCallee() != nil {
		return
	}
	m.callees[e.Site] = append(m.callees[e.Site], e.Callee.Func)
}

func (m *modsum) solve() {
	for iter := 0; iter < 50; iter++ {
		changed := false
		for _, fn := range m.fns {
			if m.analyse(fn) {
				changed = true
			}
		}
		m.iters = iter + 1
		if !changed {
			return
		}
	}
}

// analyse recomputes fn's summary; returns true if it grew.
func (m *modsum) analyse(fn *ssa.Function) bool {
	sum := m.sums[fn]
	np := len(fn.Params)
	orig := map[ssa.Value]oset{}
	cells := map[ssa.Value]oset{}
	grewLocal := true
	get := func(v ssa.Value) oset { return 0 }
	var eval func(v ssa.Value) oset
	eval = func(v ssa.Value) oset {
		switch x := v.(type) {
		case *ssa.Parameter:
			if tracked(x.Type()) {
				for i, p := range fn.Params {
					if p == x {
						return pbit(i)
					}
				}
			}
			return 0
		case *ssa.FreeVar:
			if tracked(x.Type()) {
				for j, f := range fn.FreeVars {
					if f == x {
						return pbit(np + j)
					}
				}
			}
			return 0
		case *ssa.Const:
			return 0
		case *ssa.Global:
			return bitOther
		}
		return orig[v]
	}
	get = eval
	add := func(v ssa.Value, o oset) {
		if o == 0 {
			return
		}
		switch v.(type) {
		case *ssa.Parameter, *ssa.FreeVar, *ssa.Const, *ssa.Global:
			return
		}
		if orig[v]|o != orig[v] {
			orig[v] |= o
			grewLocal = true
		}
	}
	// base: the value a slice expression chain is derived from
	var base func(v ssa.Value) ssa.Value
	base = func(v ssa.Value) ssa.Value {
		for i := 0; i < 20; i++ {
			switch x := v.(type) {
			case *ssa.Slice:
				v = x.X
			case *ssa.ChangeType:
				v = x.X
			case *ssa.Convert:
				v = x.X
			default:
				return v
			}
		}
		return v
	}
	grew := false
	write := func(o oset, w witness) {
		o &= paramMask
		for i := 0; i < 60 && o != 0; i++ {
			if o&(1<<uint(i)) != 0 {
				o &^= 1 << uint(i)
				if sum.writes&(1<<uint(i)) == 0 {
					sum.writes |= 1 << uint(i)
					sum.wit[i] = w
					grew = true
				}
			}
		}
	}
	unknownExt := func(o oset, name string) {
		o &= paramMask
		for i := 0; i < 60 && o != 0; i++ {
			if o&(1<<uint(i)) != 0 {
				o &^= 1 << uint(i)
				have := false
				for _, n := range sum.unknown[i] {
					if n == name {
						have = true
					}
				}
				if !have {
					sum.unknown[i] = append(sum.unknown[i], name)
					grew = true
				}
			}
		}
	}
	// applyCallee maps a callee summary onto a call site.
	applyCallee := func(call ssa.CallInstruction, callee *ssa.Function, argOf func(k int) (ssa.Value, bool)) {
		cs := m.sums[callee]
		if cs == nil {
			return
		}
		w := cs.writes
		for k := 0; k < 60 && w != 0; k++ {
			if w&(1<<uint(k)) == 0 {
				continue
			}
			w &^= 1 << uint(k)
			if a, ok := argOf(k); ok {
				write(get(a), witness{call.Pos(), "call " + stableName(callee), callee, k})
			}
		}
		for k, names := range cs.unknown {
			if a, ok := argOf(k); ok {
				for _, n := range names {
					unknownExt(get(a), n)
				}
			}
		}
		if v, ok := call.(ssa.Value); ok {
			var total oset
			for _, r := range cs.rets {
				total |= r
			}
			_ = total
			mapO := func(r oset) oset {
				var out oset
				out |= r & (bitFresh | bitOther)
				pr := r & paramMask
				for k := 0; k < 60 && pr != 0; k++ {
					if pr&(1<<uint(k)) != 0 {
						pr &^= 1 << uint(k)
						if a, ok := argOf(k); ok {
							out |= get(a)
						} else {
							out |= bitOther
						}
					}
				}
				return out
			}
			if len(cs.rets) == 1 {
				if tracked(v.Type()) {
					add(v, mapO(cs.rets[0]))
				}
			} else {
				// tuple: store per-extract
				for _, ref := range *v.Referrers() {
					if ex, ok := ref.(*ssa.Extract); ok && ex.Index < len(cs.rets) && tracked(ex.Type()) {
						add(ex, mapO(cs.rets[ex.Index]))
					}
				}
			}
		}
	}
	for pass := 0; pass < 30 && grewLocal; pass++ {
		grewLocal = false
		for _, b := range fn.Blocks {
			for _, in := range b.Instrs {
				switch x := in.(type) {
				case *ssa.Slice:
					if tracked(x.Type()) {
						if pt, ok := x.X.Type().Underlying().(*types.Pointer); ok {
							if _, isArr := pt.Elem().Underlying().(*types.Array); isArr {
								add(x, bitFresh|get(x.X))
								break
							}
						}
						if bt, ok := x.X.Type().Underlying().(*types.Basic); ok && bt.Info()&types.IsString != 0 {
							add(x, bitFresh)
							break
						}
						add(x, get(x.X))
					}
				case *ssa.ChangeType:
					if tracked(x.Type()) {
						add(x, get(x.X))
					}
				case *ssa.Convert:
					if tracked(x.Type()) {
						if tracked(x.X.Type()) {
							add(x, get(x.X))
						} else {
							add(x, bitFresh)
						}
					}
				case *ssa.MakeSlice:
					if tracked(x.Type()) {
						add(x, bitFresh)
					}
				case *ssa.Alloc:
					// arrays / cells: origins accumulate from stores
				case *ssa.Phi:
					if tracked(x.Type()) {
						var o oset
						for _, e := range x.Edges {
							o |= get(e)
						}
						add(x, o)
					}
				case *ssa.UnOp:
					if x.Op == token.MUL && tracked(x.Type()) {
						switch a := x.X.(type) {
						case *ssa.Alloc:
							add(x, cells[a])
						case *ssa.FreeVar:
							add(x, get(a))
						case *ssa.IndexAddr:
							add(x, get(a.X)|cells[base(a.X)])
						default:
							add(x, bitOther)
						}
					}
				case *ssa.Index:
					if tracked(x.Type()) {
						add(x, get(x.X))
					}
				case *ssa.Lookup:
					if tracked(x.Type()) {
						add(x, bitOther)
					}
				case *ssa.TypeAssert, *ssa.Next, *ssa.Field:
					if v, ok := in.(ssa.Value); ok && tracked(v.Type()) {
						add(v, bitOther)
					}
				case *ssa.Extract:
					if tracked(x.Type()) {
						if _, isCall := x.Tuple.(*ssa.Call); !isCall {
							add(x, bitOther)
						}
					}
				case *ssa.Store:
					vt := x.Val.Type()
					switch a := x.Addr.(type) {
					case *ssa.Alloc:
						if tracked(vt) {
							if cells[a]|get(x.Val) != cells[a] {
								cells[a] |= get(x.Val)
								grewLocal = true
							}
						}
					case *ssa.IndexAddr:
						xt := a.X.Type()
						if pt, ok := xt.Underlying().(*types.Pointer); ok {
							xt = pt.Elem()
						}
						if isByteSlice(xt) {
							write(get(a.X), witness{x.Pos(), "store into byte slice", nil, 0})
						} else if arr, ok := xt.Underlying().(*types.Array); ok {
							if b, ok := arr.Elem().Underlying().(*types.Basic); ok && b.Kind() == types.Uint8 {
								// write into a local array: not tracked
							} else if tracked(vt) {
								// element of a temp array (variadic packing): record on the array cell
								bb := base(a.X)
								if cells[bb]|get(x.Val) != cells[bb] {
									cells[bb] |= get(x.Val)
									grewLocal = true
								}
							}
						} else if tracked(vt) {
							// container element assignment: the container now reaches those bytes
							bb := base(a.X)
							add(bb, get(x.Val))
							add(a.X, get(x.Val))
							if cells[bb]|get(x.Val) != cells[bb] {
								cells[bb] |= get(x.Val)
								grewLocal = true
							}
						}
					case *ssa.FreeVar:
						// store into a captured cell: treated as reaching that free var's class (no byte write)
					}
				case *ssa.MakeClosure:
					cfn, _ := x.Fn.(*ssa.Function)
					if cfn == nil {
						break
					}
					cs := m.sums[cfn]
					if cs == nil {
						break
					}
					ncp := len(cfn.Params)
					// latent writes through captured variables are attributed at creation
					for j, bnd := range x.Bindings {
						if cs.writes&pbit(ncp+j) != 0 {
							o := get(bnd)
							if al, ok := bnd.(*ssa.Alloc); ok {
								o |= cells[al]
							}
							write(o, witness{x.Pos(), "closure " + stableName(cfn) + " writes captured variable", cfn, ncp + j})
						}
					}
				case ssa.CallInstruction:
					m.doCall(fn, x, get, add, write, unknownExt, applyCallee, cells, base)
				case *ssa.Return:
					for k, rv := range x.Results {
						if k < len(sum.rets) && tracked(rv.Type()) {
							o := get(rv)
							if sum.rets[k]|o != sum.rets[k] {
								sum.rets[k] |= o
								grew = true
							}
						}
					}
				}
			}
		}
	}
	if m.wantOrig == fn {
		for a, o := range cells {
			orig[a] |= o
		}
		m.gotOrig = orig
	}
	return grew
}

func (m *modsum) doCall(fn *ssa.Function, call ssa.CallInstruction, get func(ssa.Value) oset, add func(ssa.Value, oset),
	write func(oset, witness), unknownExt func(oset, string),
	applyCallee func(ssa.CallInstruction, *ssa.Function, func(int) (ssa.Value, bool)), cells map[ssa.Value]oset, base func(ssa.Value) ssa.Value) {
	cc := call.Common()
	cn := calleeName(call)
	args := cc.Args
	val, _ := call.(ssa.Value)
	if b, ok := cc.Value.(*ssa.Builtin); ok {
		switch b.Name() {
		case "copy":
			if len(args) == 2 {
				if isByteSlice(args[0].Type()) {
					write(get(args[0]), witness{call.Pos(), "copy into byte slice", nil, 0})
				} else if isByteContainer(args[0].Type()) {
					add(args[0], get(args[1]))
					add(base(args[0]), get(args[1]))
				}
			}
		case "append":
			if len(args) >= 1 && val != nil && tracked(val.Type()) {
				o := get(args[0])
				if isByteSlice(args[0].Type()) {
					// may write in place within capacity
					write(o, witness{call.Pos(), "append to byte slice (may write within capacity)", nil, 0})
					add(val, o|bitFresh)
				} else {
					var extra oset
					if len(args) == 2 {
						extra = get(args[1]) | cells[base(args[1])]
					}
					add(val, o|bitFresh|extra)
				}
			}
		}
		return
	}
	// static callee with a body in the module
	if sc := cc.StaticCallee(); sc != nil {
		if m.sums[sc] != nil {
			var bindings []ssa.Value
			if mc, ok := cc.Value.(*ssa.MakeClosure); ok {
				bindings = mc.Bindings
			}
			np := len(sc.Params)
			applyCallee(call, sc, func(k int) (ssa.Value, bool) {
				if k < np {
					if k < len(args) {
						return args[k], true
					}
					return nil, false
				}
				if k-np < len(bindings) {
					return bindings[k-np], true
				}
				return nil, false
			})
			return
		}
		m.external(call, cn, get, add, write, unknownExt)
		return
	}
	// dynamic / interface call: union over call-graph callees
	cs := m.callees[call]
	shift := 0
	if cc.IsInvoke() {
		shift = 1
	}
	handled := false
	for _, callee := range cs {
		if m.sums[callee] == nil {
			continue
		}
		handled = true
		np := len(callee.Params)
		applyCallee(call, callee, func(k int) (ssa.Value, bool) {
			if k < np {
				i := k - shift
				if i >= 0 && i < len(args) {
					return args[i], true
				}
				return nil, false
			}
			return nil, false // captured variables of dynamically called closures are attributed at creation
		})
	}
	for _, callee := range cs {
		if m.sums[callee] == nil {
			m.external(call, short(callee.String()), get, add, write, unknownExt)
		}
	}
	if !handled && len(cs) == 0 {
		m.external(call, cn+" (no callee resolved by the call graph)", get, add, write, unknownExt)
	}
}

// wrapperOfModule: synthetic function (wrapper/bound/thunk) for a module method.
func wrapperOfModule(fn *ssa.Function) bool {
	if fn.Synthetic == "" {
		return false
	}
	if o := fn.Object(); o != nil && o.Pkg() != nil {
		return len(o.Pkg().Path()) >= len(modPath) && o.Pkg().Path()[:len(modPath)] == modPath
	}
	if fn.Signature.Recv() != nil {
		return hasPrefixAny(typeStr(fn.Signature.Recv().Type()), "z", "*z")
	}
	return false
}

func (m *modsum) external(call ssa.CallInstruction, cn string, get func(ssa.Value) oset, add func(ssa.Value, oset), write func(oset, witness), unknownExt func(oset, string)) {
	args := call.Common().Args
	val, _ := call.(ssa.Value)
	if idxs, ok := extWriters[cn]; ok {
		for _, i := range idxs {
			if i < len(args) {
				write(get(args[i]), witness{call.Pos(), "external writer " + cn, nil, 0})
			}
		}
	} else if !extIsPure(cn) {
		for _, a := range args {
			if tracked(a.Type()) && get(a)&paramMask != 0 {
				unknownExt(get(a), cn)
			}
		}
	}
	if val != nil {
		if k, ok := extResultAlias[cn]; ok && k < len(args) && tracked(val.Type()) {
			add(val, get(args[k]))
		} else if tracked(val.Type()) {
			add(val, bitOther)
		} else if tup, ok := val.Type().(*types.Tuple); ok {
			for _, ref := range *val.Referrers() {
				if ex, ok := ref.(*ssa.Extract); ok && ex.Index < tup.Len() && tracked(ex.Type()) {
					add(ex, bitOther)
				}
			}
		}
	}
}

// chain renders the witness chain for "fn writes bytes reachable from param i".
func (m *modsum) chain(fn *ssa.Function, i int) (root *ssa.Function, rootParam int, lines []string) {
	seen := map[string]bool{}
	cur, ci := fn, i
	root, rootParam = fn, i
	for depth := 0; depth < 25; depth++ {
		k := fmt.Sprintf("%p/%d", cur, ci)
		if seen[k] {
			break
		}
		seen[k] = true
		s := m.sums[cur]
		if s == nil {
			break
		}
		w, ok := s.wit[ci]
		if !ok {
			break
		}
		lines = append(lines, fmt.Sprintf("%s [param %s] %s at %s", stableName(cur), paramName(cur, ci), w.what, m.P.Pos(w.pos)))
		// the root cause is the last function in the chain that is not a
		// designated writer: it hands a sequence it does not own to a writer
		if _, des := designatedWriters[stableName(cur)+"/"+itoa(ci)]; !des {
			root, rootParam = cur, ci
		}
		if w.callee == nil {
			return root, rootParam, lines
		}
		cur, ci = w.callee, w.cparam
	}
	return root, rootParam, lines
}

func paramName(fn *ssa.Function, i int) string {
	if i < len(fn.Params) {
		return fn.Params[i].Name()
	}
	j := i - len(fn.Params)
	if j < len(fn.FreeVars) {
		return "captured " + fn.FreeVars[j].Name()
	}
	return fmt.Sprintf("#%d", i)
}

func sortedFns(m map[*ssa.Function]bool) []*ssa.Function {
	var out []*ssa.Function
	for f := range m {
		out = append(out, f)
	}
	sort.Slice(out, func(i, j int) bool { return out[i].Pos() < out[j].Pos() })
	return out
}
