package main

import (
	"go/token"
	"go/types"
	"sort"
	"strings"

	"golang.org/x/tools/go/ssa"
)

// C16 — malformed client input yields an error, never a crash or a stall.

var planTimeIfaceMethods = map[string]bool{
	"z/expr.Expr.Validate": true, "z/expr.Expr.DeAggregate": true, "z/expr.Expr.EncodedWidth": true,
	"z/expr.Expr.Shift": true, "z/expr.Expr.IsConstant": true, "z/expr.Expr.String": true,
	"z/core.FieldSource.Get": true, "z/core.ExprSource.Get": true,
}

var c16RegionPkgs = map[string]bool{"z/sql": true, "z/planner": true, "z/expr": true, "z/core": true}

// parseRegion computes the parse/plan-time region R (DESIGN §4 C16.a).
func parseRegion(c *Ctx) map[*ssa.Function]bool {
	R := map[*ssa.Function]bool{}
	var stack []*ssa.Function
	push := func(f *ssa.Function) {
		if f == nil || R[f] || len(f.Blocks) == 0 || !c16RegionPkgs[pkgOf(f)] {
			return
		}
		R[f] = true
		stack = append(stack, f)
	}
	for _, n := range []string{"z/sql.Parse", "z/sql.TableFor", "z/planner.Plan"} {
		push(c.P.Func(n))
	}
	// functions whose address is taken in sql's package initialiser (the
	// function tables consulted while parsing) and closures defined there
	if ini := c.P.Func("z/sql.init"); ini != nil {
		for _, a := range ini.AnonFuncs {
			push(a)
		}
		for _, in := range instrs(ini) {
			for _, op := range in.Operands(nil) {
				if f, ok := (*op).(*ssa.Function); ok {
					push(f)
				}
			}
		}
	}
	// implementations of the plan-time interface methods
	impls := map[string][]*ssa.Function{}
	for _, fn := range c.P.ModFns {
		if fn.Signature.Recv() == nil || fn.Parent() != nil {
			continue
		}
		impls[fn.Name()] = append(impls[fn.Name()], fn)
	}
	for len(stack) > 0 {
		f := stack[len(stack)-1]
		stack = stack[:len(stack)-1]
		for _, call := range calls(f) {
			cc := call.Common()
			if cc.IsInvoke() {
				key := typeStr(cc.Value.Type()) + "." + cc.Method.Name()
				if planTimeIfaceMethods[key] {
					it, _ := cc.Value.Type().Underlying().(*types.Interface)
					for _, cand := range impls[cc.Method.Name()] {
						rt := cand.Signature.Recv().Type()
						if it != nil && (types.Implements(rt, it) || types.Implements(types.NewPointer(rt), it)) {
							push(cand)
						}
					}
				}
				continue
			}
			if sc := cc.StaticCallee(); sc != nil {
				if sc.Parent() != nil {
					// immediately-invoked or locally called closure
					push(sc)
				} else {
					push(sc)
				}
			}
		}
	}
	return R
}

// c16AssertExceptions: reviewed non-comma-ok assertions with a machine-checked
// side condition (the exception dies if its reason does).
type c16Exc struct {
	reason string
	side   func(c *Ctx, ta *ssa.TypeAssert) (bool, string)
}

func ruleC16a(c *Ctx) {
	const rule = "C16.a"
	c.describe(rule, "reg+dom over the parse/plan region (static calls from sql.Parse, sql.TableFor, planner.Plan into sql/planner/expr/core, sql's function tables, plan-time interface methods): every non-comma-ok type assertion is dominated by a successful comma-ok test of the same value to the same type, or asserts a value whose dynamic type is fixed by construction (checked side condition)")
	R := parseRegion(c)
	var fns []*ssa.Function
	for f := range R {
		fns = append(fns, f)
	}
	sort.Slice(fns, func(i, j int) bool { return fns[i].Pos() < fns[j].Pos() })
	c.floor(rule, "functions in the parse/plan region", len(fns), 100)
	nAssert := 0
	for _, f := range fns {
		c.touch(f)
		for _, in := range instrs(f) {
			ta, ok := in.(*ssa.TypeAssert)
			if !ok || ta.CommaOk {
				continue
			}
			// interface-to-interface assertions on nil-able values also panic; all are checked
			nAssert++
			inst := stableName(f) + " .(" + typeStr(ta.AssertedType) + ") on " + describeOperand(ta.X)
			if justifiedAssert(ta) {
				c.ok(rule, inst, ta.Pos(), "dominated by a successful comma-ok assertion / type-switch arm of the same value and type")
				continue
			}
			if ok, why := fixedDynamicType(c, ta); ok {
				c.ok(rule, inst, ta.Pos(), "dynamic type fixed by construction: "+why)
				continue
			}
			c.bad(rule, inst, ta.Pos(), "unchecked type assertion on a value whose dynamic type depends on client-supplied SQL: the wrong statement/argument kind panics instead of returning an error (reachable from the Query RPC, where a panic kills the server)")
		}
	}
	c.floor(rule, "non-comma-ok assertions examined in the region", nAssert, 3)
}

func describeOperand(v ssa.Value) string {
	v = strip(v)
	if c, idx, ok := extractOf(v); ok {
		return "result " + itoa(idx) + " of " + calleeName(c)
	}
	if c, ok := v.(*ssa.Call); ok {
		return "result of " + calleeName(c)
	}
	if p, ok := v.(*ssa.Parameter); ok {
		return "parameter " + p.Name()
	}
	if b, f, ok := fieldOf(v); ok && f != nil {
		return "field " + fieldKey(b.Type(), f)
	}
	return typeStr(v.Type()) + " value"
}

// justifiedAssert: some comma-ok TypeAssert of the same value to the same type
// has its ok==true edge dominating ta.
func justifiedAssert(ta *ssa.TypeAssert) bool {
	// operand is itself the value produced by a successful comma-ok assertion
	// to the same type
	if ex, ok := strip(ta.X).(*ssa.Extract); ok && ex.Index == 0 {
		if t2, ok := ex.Tuple.(*ssa.TypeAssert); ok && t2.CommaOk && types.Identical(t2.AssertedType, ta.AssertedType) {
			for _, g := range guardsOf(ta.Block()) {
				if e1, ok := g.v.(*ssa.Extract); ok && g.pos && e1.Index == 1 && e1.Tuple == ssa.Value(t2) {
					return true
				}
			}
		}
	}
	for _, g := range guardsOf(ta.Block()) {
		if !g.pos {
			continue
		}
		ex, ok := g.v.(*ssa.Extract)
		if !ok || ex.Index != 1 {
			continue
		}
		t2, ok := ex.Tuple.(*ssa.TypeAssert)
		if !ok || !t2.CommaOk {
			continue
		}
		if types.Identical(t2.AssertedType, ta.AssertedType) && sameValue(t2.X, ta.X) {
			return true
		}
	}
	return false
}

// fixedDynamicType: the asserted operand can only hold the asserted type.
func fixedDynamicType(c *Ctx, ta *ssa.TypeAssert) (bool, string) {
	x := strip(ta.X)
	// (1) every value flowing into x (through phis) is a MakeInterface of the asserted type
	seen := map[ssa.Value]bool{}
	var all func(v ssa.Value) bool
	all = func(v ssa.Value) bool {
		if seen[v] {
			return true
		}
		seen[v] = true
		switch y := v.(type) {
		case *ssa.MakeInterface:
			return types.Identical(y.X.Type(), ta.AssertedType)
		case *ssa.Phi:
			for _, e := range y.Edges {
				if !all(e) {
					return false
				}
			}
			return true
		case *ssa.ChangeInterface:
			return all(y.X)
		}
		return false
	}
	if all(ta.X) {
		return true, "operand is built from a value of the asserted type in this function"
	}
	// (2) the operand is a struct field whose every store in the module stores
	// a value of the asserted type
	if b, f, ok := fieldOf(x); ok && f != nil {
		key := fieldKey(b.Type(), f)
		n, good := 0, true
		for _, fn := range c.P.ModFns {
			for _, st := range fieldStores(fn, key) {
				n++
				if mi, ok := st.Val.(*ssa.MakeInterface); !ok || !types.Identical(mi.X.Type(), ta.AssertedType) {
					// result of a call returning the concrete type boxed? accept calls whose every return is MakeInterface of T
					if !valueAlwaysType(st.Val, ta.AssertedType, 0) {
						good = false
					}
				}
			}
		}
		if n > 0 && good {
			return true, "field " + key + " is only ever assigned values of the asserted type (" + itoa(n) + " store(s) in the module)"
		}
	}
	// (3) result of a module function all of whose returns box the asserted type
	if valueAlwaysType(x, ta.AssertedType, 0) {
		return true, "produced by a module function whose every return boxes the asserted type"
	}
	// (4) re-parse of synthetic text that starts with a constant "SELECT " prefix
	if call, idx, ok := extractOf(x); ok && idx == 0 && calleeName(call) == "github.com/getlantern/sqlparser.Parse" {
		if len(call.Call.Args) == 1 {
			if sp, ok := strip(call.Call.Args[0]).(*ssa.Call); ok && calleeName(sp) == "fmt.Sprintf" && len(sp.Call.Args) > 0 {
				if f, ok := constString(sp.Call.Args[0]); ok && strings.HasPrefix(strings.ToUpper(f), "SELECT ") && strings.Contains(strings.ToUpper(f), " FROM ") &&
					typeStr(ta.AssertedType) == "*github.com/getlantern/sqlparser.Select" {
					return true, "operand is sqlparser.Parse of fmt.Sprintf(\"" + f + "\", <rendered select expressions>): a statement assembled by this code as SELECT … FROM …, not the client's statement (a top-level UNION cannot appear in rendered, parenthesis-balanced select expressions)"
				}
			}
		}
	}
	// (6) type-set argument: the operand is a parameter; every caller passes it
	// only on paths guarded by a module predicate P(x)==true; P returns true only
	// for dynamic types in S; the types of S other than the asserted one are
	// excluded at the assertion by dominating failed comma-ok tests.
	if p, ok := x.(*ssa.Parameter); ok {
		if ok, why := typeSetJustified(c, ta, p); ok {
			return true, why
		}
	}
	// (5) a parameter of an unexported function all of whose static callers pass
	// values that are justified at the call site
	if p, ok := x.(*ssa.Parameter); ok {
		fn := p.Parent()
		if !ast_isExported(fn) {
			idx := -1
			for i, q := range fn.Params {
				if q == p {
					idx = i
				}
			}
			nCalls, good := 0, true
			for _, g := range c.P.ModFns {
				for _, call := range calls(g) {
					if call.Common().StaticCallee() != fn {
						continue
					}
					nCalls++
					a := call.Common().Args[idx]
					if !valueAlwaysType(strip(a), ta.AssertedType, 0) {
						if mi, ok := a.(*ssa.MakeInterface); !ok || !types.Identical(mi.X.Type(), ta.AssertedType) {
							good = false
						}
					}
				}
			}
			if nCalls > 0 && good && !addressTaken(c, fn) {
				return true, "unexported function whose " + itoa(nCalls) + " static caller(s) all pass a value of the asserted type"
			}
		}
	}
	return false, ""
}

func ast_isExported(fn *ssa.Function) bool {
	if fn.Parent() != nil {
		return false
	}
	return token.IsExported(fn.Name())
}

func addressTaken(c *Ctx, fn *ssa.Function) bool {
	for _, g := range c.P.ModFns {
		for _, in := range instrs(g) {
			if call, ok := in.(ssa.CallInstruction); ok {
				for _, a := range call.Common().Args {
					if a == ssa.Value(fn) {
						return true
					}
				}
				continue
			}
			for _, op := range in.Operands(nil) {
				if *op == ssa.Value(fn) {
					return true
				}
			}
		}
	}
	return false
}

// valueAlwaysType: v is (a phi of) MakeInterface(T) or the result of a module
// function whose every return value at that index is such.
func valueAlwaysType(v ssa.Value, T types.Type, depth int) bool {
	if depth > 4 {
		return false
	}
	switch y := v.(type) {
	case *ssa.MakeInterface:
		return types.Identical(y.X.Type(), T)
	case *ssa.ChangeInterface:
		return valueAlwaysType(y.X, T, depth)
	case *ssa.Phi:
		for _, e := range y.Edges {
			if !valueAlwaysType(e, T, depth+1) {
				return false
			}
		}
		return len(y.Edges) > 0
	case *ssa.Call:
		return fnAlwaysReturns(y.Call.StaticCallee(), 0, T, depth+1)
	case *ssa.Extract:
		if call, ok := y.Tuple.(*ssa.Call); ok {
			return fnAlwaysReturns(call.Call.StaticCallee(), y.Index, T, depth+1)
		}
	}
	return false
}

func fnAlwaysReturns(fn *ssa.Function, idx int, T types.Type, depth int) bool {
	if fn == nil || len(fn.Blocks) == 0 || !inModule(fn) {
		return false
	}
	n := 0
	for _, in := range instrs(fn) {
		r, ok := in.(*ssa.Return)
		if !ok || idx >= len(r.Results) {
			continue
		}
		n++
		rv := r.Results[idx]
		if isNilConst(rv) {
			// nil result accompanies an error return; a nil interface asserted
			// with .(T) panics, so it is only acceptable when the error is checked
			// by the caller — conservatively reject
			return false
		}
		if !valueAlwaysType(rv, T, depth) {
			return false
		}
	}
	return n > 0
}

// ---- C16.b: recover barriers and pipeline progress ----

func hasRecoverBarrier(fn *ssa.Function) (ssa.Instruction, bool) {
	for _, in := range instrs(fn) {
		d, ok := in.(*ssa.Defer)
		if !ok {
			continue
		}
		var target *ssa.Function
		switch v := d.Call.Value.(type) {
		case *ssa.MakeClosure:
			target, _ = v.Fn.(*ssa.Function)
		case *ssa.Function:
			target = v
		}
		if target == nil {
			continue
		}
		for _, call := range calls(target) {
			if isCall(call, "builtin recover") {
				return d, true
			}
		}
	}
	return nil, false
}

func ruleC16b(c *Ctx) {
	const rule = "C16.b"
	c.describe(rule, "dom: the per-entry workers the property names ((*table).insert on the ingest path, (*DB).mapPartitionRequest on the replication path) install a deferred recover() in their own frame before any other call and start no goroutine below it; a rejected or panicking entry still advances the offset (skip)")
	for _, name := range []string{"(*z.table).insert", "(*z.DB).mapPartitionRequest"} {
		fn := c.need(rule, name)
		if fn == nil {
			continue
		}
		d, ok := hasRecoverBarrier(fn)
		if !ok {
			c.bad(rule, name+": recover barrier", fn.Pos(), "no deferred closure calling recover() in this frame: a panic while decoding one client-supplied entry kills the ingest/replication goroutine (and the process)")
			continue
		}
		// the defer must precede every other call
		early := true
		var first string
		for _, call := range calls(fn) {
			if call == d.(ssa.CallInstruction) {
				continue
			}
			if !instrDominates(d, call) {
				early = false
				first = calleeName(call) + " at " + c.P.Pos(call.Pos())
				break
			}
		}
		c.check(rule, name+": recover barrier", d.Pos(), early, "deferred recover() is installed before every call in the function", "a call ("+first+") can run before the recover barrier is installed")
		// no goroutine spawned in the function or its static module callees (depth 3)
		goSite := ""
		seen := map[*ssa.Function]bool{}
		var walk func(f *ssa.Function, depth int)
		walk = func(f *ssa.Function, depth int) {
			if f == nil || seen[f] || depth > 3 || !inModule(f) {
				return
			}
			seen[f] = true
			for _, in := range instrs(f) {
				if g, ok := in.(*ssa.Go); ok {
					goSite = stableName(f) + " at " + c.P.Pos(g.Pos())
				}
				if call, ok := in.(ssa.CallInstruction); ok {
					if sc := call.Common().StaticCallee(); sc != nil && pkgOf(sc) == "z" {
						walk(sc, depth+1)
					}
				}
			}
		}
		walk(fn, 0)
		c.check(rule, name+": no goroutine below the barrier", fn.Pos(), goSite == "", "no go statement in the function or its static callees in package zenodb (depth 3)", "a goroutine is started below the barrier ("+goSite+"): its panics are not recovered")
	}
	ruleSkipOnReject(c, rule)
}

// ruleSkipOnReject: in (*table).processInserts the false outcome of t.insert
// reaches t.skip before the next entry is read (the offset still advances).
func ruleSkipOnReject(c *Ctx, rule string) {
	fn := c.need(rule, "(*z.table).processInserts")
	if fn == nil {
		return
	}
	sites := callsTo(fn, "(*z.table).insert")
	c.floor(rule, "t.insert call sites in (*table).processInserts", len(sites), 1)
	for _, s := range sites {
		call, _ := s.(*ssa.Call)
		ok := false
		if call != nil {
			for _, b := range fn.Blocks {
				i := ifOf(b)
				if i == nil {
					continue
				}
				v, pol := unNot(i.Cond, true)
				if v != ssa.Value(call) {
					continue
				}
				falseSucc := b.Succs[1]
				if !pol {
					falseSucc = b.Succs[0]
				}
				skips := callsTo(fn, "(*z.table).skip")
				avoid := blockSet{}
				for _, sk := range skips {
					avoid[sk.Block()] = true
				}
				// from the false edge, the loop header (select block) must be unreachable without passing skip
				l := innermostLoop(fn, b)
				if l != nil && len(skips) > 0 && (avoid[falseSucc] || !reach([]*ssa.BasicBlock{falseSucc}, avoid, nil)[l.header]) {
					ok = true
				}
			}
		}
		c.check(rule, "processInserts: rejected entry advances the offset", s.Pos(), ok, "the false outcome of t.insert reaches t.skip(offset, source) on every path before the next entry", "an entry that t.insert rejected (filtered, malformed, panicked) can be followed by the next read without t.skip: its offset is never recorded and it is replayed/stalls after restart")
	}
}

func init() {
	register(&PropSpec{
		ID:          "C16",
		Explanation: "Decides the structural clause 'no unchecked dynamic-type assumption on client-derived values in parse/plan code, and the per-entry recover barriers exist': every non-comma-ok type assertion in the parse/plan region is dominated by a successful comma-ok test or has a construction-fixed dynamic type; (*table).insert and (*DB).mapPartitionRequest install recover() first and spawn nothing below; a rejected entry still advances the WAL offset. Added clauses: a recovered panic in mapPartitionRequest still reports a result; string slices at searched positions are bounds-safe; no mutex is held without defer across goexpr Eval on the recovered ingest path. Further clauses: variadic dimension functions are dispatched with the arity their constructors index; every constant-index access to a parsed function's argument list lies within the checked arity (length sets per path); InsertRaw touches raw client byte maps only under the trace guard or a recover barrier.",
		NotDecided:  []string{"panics from index/nil/arithmetic inside sqlparser, goexpr, bytemap on arbitrary bytes (no barrier at sql.Parse, and none is added)", "semantic validation of arities beyond what produces a dynamic-type assumption", "panics in goroutines without a barrier other than the two per-entry workers"},
		Assumptions: []string{"the parse/plan region is closed under static calls and the listed plan-time interface methods"},
		Rules:       []func(*Ctx){ruleC16a, ruleC16b, ruleC16c, func(c *Ctx) { ruleC16d(c, "C16.d") }, func(c *Ctx) { ruleC16e(c, "C16.e") }, func(c *Ctx) { ruleC16f(c, "C16.f") }, func(c *Ctx) { ruleC16g(c, "C16.g") }, func(c *Ctx) { ruleC16h(c, "C16.h") }, func(c *Ctx) { ruleC16i(c, "C16.i") }, func(c *Ctx) { ruleC16j(c, "C16.j") }},
	})
}

// typeSetJustified implements justification (6).
func typeSetJustified(c *Ctx, ta *ssa.TypeAssert, p *ssa.Parameter) (bool, string) {
	fn := p.Parent()
	if fn.Parent() != nil || addressTaken(c, fn) {
		return false, ""
	}
	idx := -1
	_ = idx
	for i, q := range fn.Params {
		if q == p {
			idx = i
		}
	}
	// types excluded at the assertion: comma-ok asserts on the same value whose
	// ok==false edge dominates ta
	excluded := map[string]bool{}
	for _, g := range guardsOf(ta.Block()) {
		if ex, ok := g.v.(*ssa.Extract); ok && !g.pos && ex.Index == 1 {
			if t2, ok := ex.Tuple.(*ssa.TypeAssert); ok && t2.CommaOk && sameValue(t2.X, ta.X) {
				excluded[typeStr(t2.AssertedType)] = true
			}
		}
	}
	var pred *ssa.Function
	nCalls := 0
	for _, g := range c.P.ModFns {
		if pkgOf(g) == "" || isTestFn(g) {
			continue
		}
		for _, call := range calls(g) {
			if call.Common().StaticCallee() != fn {
				continue
			}
			nCalls++
			// every feasible path to the call has an atom Pred(..)==true
			var thisPred *ssa.Function
			all := true
			n, complete := pathsTo(g.Blocks[0], call.Block(), func(pa pathAtoms) bool {
				found := false
				for _, a := range pa.atoms {
					if pc, ok := a.v.(*ssa.Call); ok && a.pos {
						if sc := pc.Call.StaticCallee(); sc != nil && inModule(sc) && len(sc.Params) == 1 {
							if thisPred == nil || thisPred == sc {
								thisPred = sc
								found = true
							}
						}
					}
				}
				if !found {
					all = false
				}
				return found
			})
			if !all || !complete || n == 0 || thisPred == nil {
				return false, ""
			}
			if pred != nil && pred != thisPred {
				return false, ""
			}
			pred = thisPred
		}
	}
	if nCalls == 0 || pred == nil {
		return false, ""
	}
	// S: types for which pred returns true
	S := map[string]bool{}
	for _, b := range pred.Blocks {
		if len(b.Instrs) == 0 {
			continue
		}
		r, ok := b.Instrs[len(b.Instrs)-1].(*ssa.Return)
		if !ok || len(r.Results) != 1 {
			continue
		}
		cv, isC := constBool(r.Results[0])
		if !isC {
			return false, ""
		}
		if !cv {
			continue
		}
		found := false
		for _, g := range guardsOf(b) {
			if ex, ok := g.v.(*ssa.Extract); ok && g.pos && ex.Index == 1 {
				if t2, ok := ex.Tuple.(*ssa.TypeAssert); ok && t2.CommaOk {
					S[typeStr(t2.AssertedType)] = true
					found = true
				}
			}
		}
		if !found {
			return false, ""
		}
	}
	if len(S) == 0 {
		return false, ""
	}
	var rest []string
	for t := range S {
		if t != typeStr(ta.AssertedType) && !excluded[t] {
			rest = append(rest, t)
		}
	}
	if len(rest) > 0 {
		return false, ""
	}
	c.touch(pred)
	return true, "all " + itoa(nCalls) + " caller(s) reach the call only under " + stableName(pred) + "(x)==true, which holds only for dynamic types {" + strings.Join(keysOf(S), ", ") + "}; the others are excluded here by failed comma-ok tests"
}

func keysOf(m map[string]bool) []string {
	var out []string
	for k := range m {
		out = append(out, k)
	}
	sort.Strings(out)
	return out
}

func isTestFn(fn *ssa.Function) bool {
	for fn.Parent() != nil {
		fn = fn.Parent()
	}
	return false
}

// panickingAPIs: library entry points that panic on bad input; inside the
// parse/plan region they may only receive constants.
var panickingAPIs = map[string]bool{
	"regexp.MustCompile":      true,
	"regexp.MustCompilePOSIX": true,
	"text/template.Must":      true,
	"html/template.Must":      true,
}

func ruleC16c(c *Ctx) {
	const rule = "C16.c"
	c.describe(rule, "reg: inside the parse/plan region (plus package planner as a whole) panicking library constructors (regexp.MustCompile, template.Must) receive only compile-time constants; a pattern assembled from client text must go through the error-returning form")
	R := parseRegion(c)
	for _, fn := range c.P.ModFns {
		if p := pkgOf(fn); p == "z/planner" || p == "z/sql" {
			R[fn] = true
		}
	}
	n := 0
	nErrForm := 0
	var fns []*ssa.Function
	for f := range R {
		fns = append(fns, f)
	}
	sort.Slice(fns, func(i, j int) bool { return fns[i].Pos() < fns[j].Pos() })
	for _, f := range fns {
		for _, call := range calls(f) {
			cn := calleeName(call)
			if cn == "regexp.Compile" {
				nErrForm++
			}
			if !panickingAPIs[cn] {
				continue
			}
			n++
			_, isConst := constString(call.Common().Args[0])
			c.check(rule, stableName(f)+" -> "+cn, call.Pos(), isConst, "argument is a compile-time constant", "a panicking constructor receives a value computed at run time (client-derived text): malformed input panics in planning instead of returning an error")
		}
	}
	// positive control: the error-returning form is in use in the region
	if nErrForm == 0 && n == 0 {
		c.undecided(rule, "regexp use in the planner", token.NoPos, "neither regexp.Compile nor a panicking constructor found in the region: the rule matches nothing (rule table out of date?)")
	} else if n == 0 {
		c.ok(rule, "no panicking constructor in the region", token.NoPos, itoa(nErrForm)+" regexp.Compile call(s) use the error-returning form")
	}
}

// ruleC16d: dynamic-type assumptions on values computed from stored/ingested
// data at row-processing time.
func ruleC16d(c *Ctx, rule string) {
	c.describe(rule, "reg+dom: outside the parse/plan region, every non-comma-ok type assertion on the result of a goexpr.Expr.Eval (a value computed from row data) is either inside a per-entry recover barrier's extent ((*table).insert via doInsert, mapPartitionRequest), or a nil-guarded .(bool) on a WHERE predicate, or on a filter that every caller passes as nil; anything else turns unexpected data into a process crash")
	barrier := map[string]bool{"(*z.table).doInsert": true, "(*z.DB).mapPartitionRequest": true}
	// doInsert is only called from (*table).insert (which has the barrier)
	if di := c.P.Func("(*z.table).doInsert"); di != nil {
		okCallers := true
		n := 0
		for _, fn := range c.P.ModFns {
			for _, call := range callsTo(fn, "(*z.table).doInsert") {
				n++
				_ = call
				if stableName(fn) != "(*z.table).insert" {
					okCallers = false
				}
			}
		}
		if !okCallers || n == 0 {
			delete(barrier, "(*z.table).doInsert")
		}
	}
	n := 0
	for _, fn := range c.P.ModFns {
		p := pkgOf(fn)
		if p == "z/cmd/zeno" || p == "z/cmd/zenotool" || p == "z/testsupport" {
			continue
		}
		for _, in := range instrs(fn) {
			ta, ok := in.(*ssa.TypeAssert)
			if !ok || ta.CommaOk {
				continue
			}
			call, ok := ta.X.(*ssa.Call)
			if !ok || calleeName(call) != "invoke (github.com/getlantern/goexpr.Expr).Eval" {
				continue
			}
			n++
			c.touch(fn)
			top := fn
			for top.Parent() != nil {
				top = top.Parent()
			}
			inst := stableName(fn) + " .(" + typeStr(ta.AssertedType) + ") on Eval of " + describeOperand(call.Call.Value)
			_, ownBarrier := hasRecoverBarrier(top)
			switch {
			case barrier[stableName(top)] || ownBarrier:
				c.ok(rule, inst, ta.Pos(), "inside the extent of a per-entry recover barrier")
			case typeStr(ta.AssertedType) == "bool" && nilGuarded(ta, call):
				c.ok(rule, inst, ta.Pos(), "nil-guarded .(bool) on a boolean predicate")
			case allCallersPassNil(c, top, call.Call.Value):
				c.ok(rule, inst, ta.Pos(), "the evaluated expression is a parameter that every caller passes as nil (dead at run time)")
			default:
				c.bad(rule, inst, ta.Pos(), "unchecked type assertion on a value computed from row data, with no recover barrier around it: data of an unexpected shape (missing or non-string dimension) panics in the query path and kills the process")
			}
		}
	}
	c.floor(rule, "row-time assertions on Eval results", n, 3)
}

func nilGuarded(ta *ssa.TypeAssert, v ssa.Value) bool {
	for _, g := range guardsOf(ta.Block()) {
		if x, nn, ok := nilTest(g); ok && nn && x == v {
			return true
		}
	}
	return false
}

// allCallersPassNil: recvExpr is (a load of) a parameter of fn, and every
// static caller in the module passes a nil constant for it.
func allCallersPassNil(c *Ctx, fn *ssa.Function, recvExpr ssa.Value) bool {
	var p *ssa.Parameter
	if q, ok := strip(recvExpr).(*ssa.Parameter); ok {
		p = q
	}
	if p == nil || p.Parent() != fn {
		return false
	}
	idx := -1
	for i, q := range fn.Params {
		if q == p {
			idx = i
		}
	}
	n := 0
	for _, g := range c.P.ModFns {
		if strings.HasPrefix(pkgOf(g), "z/cmd") {
			continue
		}
		for _, call := range calls(g) {
			if call.Common().StaticCallee() != fn {
				continue
			}
			n++
			a := call.Common().Args[idx]
			if isNilConst(a) {
				continue
			}
			// forwarded parameter of the caller: recurse one level
			if q, ok := a.(*ssa.Parameter); ok && q.Parent() == g {
				if allCallersPassNil(c, g, q) {
					continue
				}
			}
			av := a
			if u, ok := av.(*ssa.UnOp); ok && u.Op == token.MUL {
				av = u.X
			}
			if fv, ok := av.(*ssa.FreeVar); ok {
				rootv := cellRoot(fv)
				if al, isAl := rootv.(*ssa.Alloc); isAl {
					if sts := cellStores(al.Parent(), al); len(sts) == 1 {
						rootv = sts[0].Val
					}
				}
				if q, ok := rootv.(*ssa.Parameter); ok {
					top := g
					for top.Parent() != nil {
						top = top.Parent()
					}
					if q.Parent() == top && allCallersPassNil(c, top, q) {
						continue
					}
				}
			}
			return false
		}
	}
	return n > 0
}

// ruleC16e: a worker that recovers from a panic still fulfils its protocol
// obligation.
func ruleC16e(c *Ctx, rule string) {
	c.describe(rule, "dom (pairing across the recover path): (*DB).mapPartitionRequest sends exactly one result on 'mapped' per request — on every normal path to a return, and in the deferred recover() closure whenever a panic was recovered — because reducePartitionRequests waits for one result per queued request")
	fn := c.need(rule, "(*z.DB).mapPartitionRequest")
	if fn == nil {
		return
	}
	var ch *ssa.Parameter
	for _, p := range fn.Params {
		if typeStr(p.Type()) == "chan *z.partitionsResult" {
			ch = p
		}
	}
	if ch == nil {
		c.undecided(rule, "mapPartitionRequest result channel", fn.Pos(), "no parameter of type chan *partitionsResult")
		return
	}
	// normal paths
	var sends []ssa.Instruction
	for _, in := range instrs(fn) {
		if sd, ok := in.(*ssa.Send); ok {
			isCh := sd.Chan == ssa.Value(ch)
			if u, isU := sd.Chan.(*ssa.UnOp); isU && sameCellParam(u.X, ch) {
				isCh = true
			}
			if isCh {
				sends = append(sends, sd)
			}
		}
	}
	okNormal := len(sends) > 0
	for _, b := range fn.Blocks {
		if b == fn.Recover || len(b.Instrs) == 0 {
			continue
		}
		if r, isR := b.Instrs[len(b.Instrs)-1].(*ssa.Return); isR {
			avoid := blockSet{}
			for _, s := range sends {
				avoid[s.Block()] = true
			}
			if !avoid[b] && reach([]*ssa.BasicBlock{fn.Blocks[0]}, avoid, nil)[b] {
				okNormal = false
			}
			_ = r
		}
	}
	c.check(rule, "mapPartitionRequest reports a result on every normal path", fn.Pos(), okNormal, "every return is preceded by mapped <- result", "a request can complete without a result being sent: the reducer waits for it forever")
	// recovered path
	d, has := hasRecoverBarrier(fn)
	okRec := false
	if has {
		var target *ssa.Function
		if mc, ok := d.(*ssa.Defer).Call.Value.(*ssa.MakeClosure); ok {
			target, _ = mc.Fn.(*ssa.Function)
		}
		if target != nil {
			c.touch(target)
			// the send must be on the p != nil side of the recover test
			var rec ssa.Value
			for _, call := range calls(target) {
				if isCall(call, "builtin recover") {
					rec, _ = call.(ssa.Value)
				}
			}
			for _, in := range instrs(target) {
				sd, ok := in.(*ssa.Send)
				if !ok {
					continue
				}
				if fv, isFV := sd.Chan.(*ssa.FreeVar); !isFV || cellRoot(fv) != ssa.Value(ch) {
					if u, isU := sd.Chan.(*ssa.UnOp); !isU || !sameCellParam(u.X, ch) {
						continue
					}
				}
				// every path from the closure's entry on which recover() != nil reaches the send
				all := true
				for _, ci := range findIfs(target, func(v ssa.Value) bool {
					x, _, ok := nilTest(atom{v, true})
					return ok && rec != nil && x == rec
				}) {
					_, nn, _ := nilTest(atom{ci.v, true})
					s := ci.succFor(nn)
					// from s, a return must not be reachable without passing the send
					avoid := blockSet{sd.Block(): true}
					for b := range reach([]*ssa.BasicBlock{s}, avoid, nil) {
						if _, isR := b.Instrs[len(b.Instrs)-1].(*ssa.Return); isR {
							all = false
						}
					}
					if avoid[s] {
						all = true
					}
				}
				okRec = all
			}
		}
	}
	c.check(rule, "mapPartitionRequest reports a result after a recovered panic", fn.Pos(), okRec, "the deferred recover() closure sends on mapped whenever it recovered", "after a recovered panic no result is sent for the request: reducePartitionRequests blocks on <-mapped and no later entry reaches any follower (one oddly typed point stalls replication)")
}

func sameCellParam(addr ssa.Value, p *ssa.Parameter) bool {
	rootv := cellRoot(addr)
	if al, ok := rootv.(*ssa.Alloc); ok {
		sts := cellStores(al.Parent(), al)
		return len(sts) == 1 && sts[0].Val == ssa.Value(p)
	}
	return rootv == ssa.Value(p)
}

// ruleC16f: slicing SQL text at searched positions cannot panic.
func ruleC16f(c *Ctx, rule string) {
	c.describe(rule, "dom: in package planner a string is sliced at a position obtained from a text search only when (1) a found-test on that position dominates the slice for searches that report -1, and (2) the sliced string is the very string that was searched (or its case-mapped source) — otherwise a test of the position against len(sliced string) must dominate the slice: the text may have been cut shorter in between")
	n := 0
	for _, fn := range c.P.ModFns {
		if pkgOf(fn) != "z/planner" {
			continue
		}
		for _, in := range instrs(fn) {
			sl, ok := in.(*ssa.Slice)
			if !ok || !isStringType(sl.X.Type()) {
				continue
			}
			var srcs []*ssa.Call
			for _, bnd := range []ssa.Value{sl.Low, sl.High} {
				if bnd == nil {
					continue
				}
				dependsOn(bnd, func(x ssa.Value) bool {
					if call, ok := x.(*ssa.Call); ok && textSearchCalls[calleeName(call)] {
						srcs = append(srcs, call)
					}
					return false
				})
			}
			seen := map[*ssa.Call]bool{}
			for _, s := range srcs {
				if seen[s] {
					continue
				}
				seen[s] = true
				n++
				c.touch(fn)
				searched := s.Call.Args[0]
				if strings.Contains(calleeName(s), "regexp") {
					searched = s.Call.Args[1]
				}
				src := searched
				if cl, isC := strip(searched).(*ssa.Call); isC && (isCall(cl, "strings.ToLower") || isCall(cl, "strings.ToUpper")) {
					src = cl.Call.Args[0]
				}
				same := sameValue(sl.X, searched) || sameValue(sl.X, src)
				// a position that was moved on from where the search found it (idx += …, idx+1) can
				// lie beyond the end even of the searched string itself
				for _, bnd := range []ssa.Value{sl.Low, sl.High} {
					if bnd != nil && dependsOn(bnd, func(x ssa.Value) bool {
						b, isB := x.(*ssa.BinOp)
						return isB && (b.Op == token.ADD || b.Op == token.SUB || b.Op == token.MUL)
					}) {
						same = false
					}
				}
				lenGuard, foundGuard := false, false
				dependsOnSearch := func(v ssa.Value) bool {
					return dependsOn(v, func(x ssa.Value) bool { return x == ssa.Value(s) })
				}
				for _, g := range guardsOf(sl.Block()) {
					b, isB := g.v.(*ssa.BinOp)
					if !isB {
						continue
					}
					for _, pair := range [][2]ssa.Value{{b.X, b.Y}, {b.Y, b.X}} {
						if !dependsOnSearch(pair[0]) {
							continue
						}
						if cl, isC := pair[1].(*ssa.Call); isC && isCall(cl, "builtin len") && sameValue(cl.Call.Args[0], sl.X) {
							lenGuard = true
						}
						if k, isK := constInt(pair[1]); isK && (k == 0 || k == -1) {
							foundGuard = true
						}
					}
				}
				reportsMinus1 := strings.HasPrefix(calleeName(s), "strings.")
				okFound := !reportsMinus1 || foundGuard
				okLen := same || lenGuard
				inst := stableName(fn) + ": slice at " + calleeName(s) + " #" + itoa(perTopCount(c, rule, topOf(fn))) + " stays in bounds"
				why := ""
				if !okFound {
					why = "no found-test (position > 0 / >= 0 / != -1) dominates the slice"
				}
				if !okLen {
					if why != "" {
						why += "; "
					}
					why += "the sliced string is not the searched one (or the position was advanced by arithmetic) and no test of the position against its length dominates the slice"
				}
				c.check(rule, inst, sl.Pos(), okFound && okLen, "found-test present; sliced string is the searched one or the position is checked against its length", "planning can panic with 'slice bounds out of range' on client SQL: "+why)
			}
		}
	}
	c.floor(rule, "string slices at searched positions in package planner", n, 4)
}

// ruleC16g: a panic raised by client data inside the ingest path is recovered
// ((*table).insert, mapPartitionRequest); a mutex that is held at that moment
// without a deferred release stays locked for good and stalls the pipeline.
func ruleC16g(c *Ctx, rule string) {
	c.describe(rule, "lock regions: in the functions of the ingest path whose panics are recovered ((*table).insert and what it calls in package zenodb), no mutex is held across the evaluation of a client-supplied expression (goexpr.Expr.Eval) unless it is released by defer — a recovered panic would otherwise leave the lock held and the next writer (ALTER → applyWhere) and every later insert block forever")
	root := c.need(rule, "(*z.table).insert")
	if root == nil {
		return
	}
	// functions of package z statically reachable from table.insert (depth <= 3)
	set := map[*ssa.Function]bool{root: true}
	frontier := []*ssa.Function{root}
	for d := 0; d < 3; d++ {
		var next []*ssa.Function
		for _, f := range frontier {
			for _, h := range withAnon(f) {
				for _, call := range calls(h) {
					g := call.Common().StaticCallee()
					if g != nil && inModule(g) && pkgOf(g) == "z" && !set[g] && len(g.Blocks) > 0 {
						set[g] = true
						next = append(next, g)
					}
				}
			}
		}
		frontier = next
	}
	var fns []*ssa.Function
	for f := range set {
		fns = append(fns, withAnon(f)...)
	}
	sort.Slice(fns, func(i, j int) bool { return fns[i].Pos() < fns[j].Pos() })
	nEval, nLocks := 0, 0
	for _, fn := range fns {
		// mutexes acquired here without a deferred release
		keys := map[string]bool{}
		deferred := map[string]bool{}
		for _, call := range calls(fn) {
			cn := calleeName(call)
			a := call.Common().Args
			if len(a) == 0 {
				continue
			}
			fa, ok := a[0].(*ssa.FieldAddr)
			if !ok {
				continue
			}
			f := fieldVar(fa.X.Type(), fa.Field)
			if f == nil {
				continue
			}
			k := fieldKey(fa.X.Type(), f)
			switch cn {
			case "(*sync.RWMutex).Lock", "(*sync.Mutex).Lock", "(*sync.RWMutex).RLock":
				if _, isDefer := call.(*ssa.Defer); !isDefer {
					keys[k] = true
					nLocks++
				}
			case "(*sync.RWMutex).Unlock", "(*sync.Mutex).Unlock", "(*sync.RWMutex).RUnlock":
				if _, isDefer := call.(*ssa.Defer); isDefer {
					deferred[k] = true
				}
			}
		}
		for _, call := range calls(fn) {
			if calleeName(call) == "invoke (github.com/getlantern/goexpr.Expr).Eval" {
				nEval++
			}
		}
		for k := range keys {
			if deferred[k] {
				continue
			}
			li := lockRegions(fn, k)
			bad := ""
			for _, call := range calls(fn) {
				if calleeName(call) != "invoke (github.com/getlantern/goexpr.Expr).Eval" {
					continue
				}
				if s := li.state[call.(ssa.Instruction)]; s == lkRead || s == lkWrite || s == lkConflict {
					bad = c.P.Pos(call.Pos())
				}
			}
			c.touch(fn)
			c.check(rule, stableName(fn)+": "+k+" is not held across expression evaluation", fn.Pos(), bad == "", "no goexpr Eval inside the region (or the release is deferred)", "mutex "+k+" is held, without a deferred release, across the evaluation of a client-supplied expression (at "+bad+"): a dimension of the wrong type makes Eval panic, the panic is recovered by (*table).insert, the lock is never released and the next ALTER and all later inserts into the table block")
		}
	}
	c.floor(rule, "expression evaluations on the ingest path", nEval, 2)
	c.floor(rule, "mutex acquisitions on the ingest path", nLocks, 2)
}

// globalMapEntries returns the constant-keyed entries a package-level map
// variable is initialised with (in the package's init).
func globalMapEntries(P *Prog, pkgPath, varName string) map[string]ssa.Value {
	out := map[string]ssa.Value{}
	ini := P.Func(pkgPath + ".init")
	if ini == nil {
		return out
	}
	var maps []ssa.Value
	for _, in := range instrs(ini) {
		st, ok := in.(*ssa.Store)
		if !ok {
			continue
		}
		if g, isG := st.Addr.(*ssa.Global); isG && g.Name() == varName && short(g.Pkg.Pkg.Path()) == pkgPath {
			maps = append(maps, st.Val)
		}
	}
	for _, in := range instrs(ini) {
		mu, ok := in.(*ssa.MapUpdate)
		if !ok {
			continue
		}
		for _, m := range maps {
			if mu.Map == m {
				if k, isK := constString(mu.Key); isK {
					out[k] = mu.Value
				}
			}
		}
	}
	return out
}

// ruleC16h: variadic dimension functions get the arguments their constructors index.
func ruleC16h(c *Ctx, rule string) {
	c.describe(rule, "flow: every variadic constructor registered in sql.varGoExpr that indexes or slices its argument list at a constant position without testing its length (goexpr.Concat: exprs[0], exprs[1:]) is only called with at least that many arguments — the dispatch in package sql compares the number of parameters the client wrote with the minimum recorded for the function (sql.minVarGoExprParams) before calling it; CONCAT() must be an error, not an index-out-of-range panic inside the parser")
	entries := globalMapEntries(c.P, "z/sql", "varGoExpr")
	if len(entries) == 0 {
		c.undecided(rule, "variadic function table", token.NoPos, "sql.varGoExpr and its initialisation were not found")
		return
	}
	mins := map[string]int64{}
	for k, v := range globalMapEntries(c.P, "z/sql", "minVarGoExprParams") {
		if n, ok := constInt(v); ok {
			mins[k] = n
		}
	}
	// the dispatch really consults the table before the call
	consults := false
	for _, fn := range c.P.ModFns {
		if pkgOf(fn) != "z/sql" {
			continue
		}
		lookupFn, lookupMin := map[ssa.Value]bool{}, map[ssa.Value]bool{}
		for _, in := range instrs(fn) {
			lk, ok := in.(*ssa.Lookup)
			if !ok {
				continue
			}
			if u, isU := lk.X.(*ssa.UnOp); isU {
				if g, isG := u.X.(*ssa.Global); isG {
					switch g.Name() {
					case "varGoExpr":
						lookupFn[lk] = true
					case "minVarGoExprParams":
						lookupMin[lk] = true
					}
				}
			}
		}
		if len(lookupFn) == 0 || len(lookupMin) == 0 {
			continue
		}
		for _, call := range calls(fn) {
			cc := call.Common()
			if cc.StaticCallee() != nil || cc.IsInvoke() || !dependsOn(cc.Value, func(v ssa.Value) bool { return lookupFn[v] }) {
				continue
			}
			for _, g := range guardsOf(call.Block()) {
				if b, isB := g.v.(*ssa.BinOp); isB && (dependsOn(b.X, func(v ssa.Value) bool { return lookupMin[v] }) || dependsOn(b.Y, func(v ssa.Value) bool { return lookupMin[v] })) {
					consults = true
				}
			}
		}
	}
	var names []string
	for k := range entries {
		names = append(names, k)
	}
	sort.Strings(names)
	for _, name := range names {
		var f *ssa.Function
		switch x := entries[name].(type) {
		case *ssa.Function:
			f = x
		case *ssa.MakeClosure:
			f, _ = x.Fn.(*ssa.Function)
		case *ssa.ChangeType:
			f, _ = x.X.(*ssa.Function)
		}
		if f == nil || len(f.Blocks) == 0 || len(f.Params) == 0 {
			c.undecided(rule, "variadic function "+name+" gets the arguments it indexes", token.NoPos, "the registered constructor cannot be analysed")
			continue
		}
		c.touch(f)
		p := f.Params[len(f.Params)-1]
		var need int64
		for _, in := range instrs(f) {
			lenGuarded := false
			for _, g := range guardsOf(in.Block()) {
				if dependsOn(g.v, func(v ssa.Value) bool {
					cl, ok := v.(*ssa.Call)
					return ok && isCall(cl, "builtin len") && cl.Call.Args[0] == ssa.Value(p)
				}) {
					lenGuarded = true
				}
			}
			if lenGuarded {
				continue
			}
			switch x := in.(type) {
			case *ssa.IndexAddr:
				if x.X == ssa.Value(p) {
					if k, ok := constInt(x.Index); ok && k+1 > need {
						need = k + 1
					}
				}
			case *ssa.Slice:
				if x.X == ssa.Value(p) && x.Low != nil {
					if k, ok := constInt(x.Low); ok && k > need {
						need = k
					}
				}
			}
		}
		declared := int64(0)
		if consults {
			declared = mins[name]
		}
		c.check(rule, "variadic function "+name+" gets the arguments it indexes", f.Pos(), declared >= need, "constructor needs "+itoa(int(need))+", the dispatch guarantees "+itoa(int(declared)), "the constructor registered for "+name+" indexes its argument list up to position "+itoa(int(need))+" unconditionally but the dispatch guarantees only "+itoa(int(declared))+" argument(s): "+name+"() with too few parameters panics inside sql.Parse / planning instead of returning an error")
	}
	c.floor(rule, "variadic dimension functions", len(names), 4)
}

// ---- small length-set domain for C16.i ----

const lenTop = 12 // lengths 0..lenTop-1 exact, bit lenTop = "that or more"

type lenSet uint32

const lenAll lenSet = (1 << (lenTop + 1)) - 1

func lenCmp(op token.Token, k int64) lenSet {
	var s lenSet
	for n := int64(0); n <= lenTop; n++ {
		hold := false
		switch op {
		case token.EQL:
			hold = n == k
		case token.NEQ:
			hold = n != k
		case token.LSS:
			hold = n < k
		case token.LEQ:
			hold = n <= k
		case token.GTR:
			hold = n > k
		case token.GEQ:
			hold = n >= k
		}
		if n == lenTop {
			// "lenTop or more": holds if it holds for arbitrarily large n
			switch op {
			case token.NEQ, token.GTR, token.GEQ:
				hold = true
			case token.EQL, token.LSS, token.LEQ:
				hold = k >= lenTop && op != token.EQL
			}
		}
		if hold {
			s |= 1 << uint(n)
		}
	}
	return s
}

func flipOp(op token.Token) token.Token {
	switch op {
	case token.LSS:
		return token.GTR
	case token.GTR:
		return token.LSS
	case token.LEQ:
		return token.GEQ
	case token.GEQ:
		return token.LEQ
	}
	return op
}

// lenSetOf: the lengths of slice 'of' under which boolean v has value pol.
func lenSetOf(v ssa.Value, pol bool, of func(ssa.Value) bool, depth int) lenSet {
	if depth > 6 {
		return lenAll
	}
	v, pol = unNot(v, pol)
	switch x := v.(type) {
	case *ssa.BinOp:
		isLen := func(y ssa.Value) bool {
			cl, ok := y.(*ssa.Call)
			return ok && isCall(cl, "builtin len") && of(cl.Call.Args[0])
		}
		op, a, b := x.Op, x.X, x.Y
		if isLen(b) && !isLen(a) {
			a, b, op = b, a, flipOp(op)
		}
		if k, ok := constInt(b); ok && isLen(a) {
			s := lenCmp(op, k)
			if !pol {
				s = lenAll &^ s
			}
			return s
		}
	case *ssa.Phi:
		if typeStr(x.Type()) != "bool" {
			return lenAll
		}
		// a && b && … (edges: false…, last) or a || b || … (edges: true…, last)
		var conds []atom
		var last ssa.Value
		kind := 0 // 1 = &&, 2 = ||
		for i, e := range x.Edges {
			if cb, isC := constBool(e); isC {
				k := 1
				if cb {
					k = 2
				}
				if kind != 0 && kind != k {
					return lenAll
				}
				kind = k
				pred := x.Block().Preds[i]
				ifi := ifOf(pred)
				if ifi == nil {
					return lenAll
				}
				// the condition value under which this edge was taken
				taken := pred.Succs[0] == x.Block()
				conds = append(conds, atom{ifi.Cond, taken})
			} else {
				if last != nil {
					return lenAll
				}
				last = e
			}
		}
		if kind == 0 || last == nil {
			return lenAll
		}
		if kind == 1 {
			// value = a1 && … && last, where edge i was taken when a_i was false
			if pol {
				s := lenSetOf(last, true, of, depth+1)
				for _, cnd := range conds {
					s &= lenSetOf(cnd.v, !cnd.pos, of, depth+1)
				}
				return s
			}
			s := lenSetOf(last, false, of, depth+1)
			for _, cnd := range conds {
				s |= lenSetOf(cnd.v, cnd.pos, of, depth+1)
			}
			return s
		}
		// value = a1 || … || last, edge i taken when a_i was true
		if pol {
			s := lenSetOf(last, true, of, depth+1)
			for _, cnd := range conds {
				s |= lenSetOf(cnd.v, cnd.pos, of, depth+1)
			}
			return s
		}
		s := lenSetOf(last, false, of, depth+1)
		for _, cnd := range conds {
			s &= lenSetOf(cnd.v, !cnd.pos, of, depth+1)
		}
		return s
	}
	return lenAll
}

// ruleC16i: arguments of SQL functions are indexed only within the arity that was checked.
func ruleC16i(c *Ctx, rule string) {
	c.describe(rule, "pathstate (length sets): in package sql every access e.Exprs[k] with a constant k to the argument list of a parsed function call is dominated by conditions on len(e.Exprs) that together imply len > k (equalities, inequalities and their && / || combinations are evaluated over the set of possible lengths) — a wrong-arity call such as PERCENTILE(a, 1, 2) must produce the arity error, not index out of range inside sql.Parse")
	n := 0
	for _, fn := range c.P.ModFns {
		if pkgOf(fn) != "z/sql" {
			continue
		}
		for _, in := range instrs(fn) {
			ia, ok := in.(*ssa.IndexAddr)
			if !ok {
				continue
			}
			k, isK := constInt(ia.Index)
			if !isK || fieldKeyOfLoad(ia.X) != "Exprs" || !strings.HasSuffix(typeStr(ia.X.Type()), "sqlparser.SelectExprs") {
				continue
			}
			n++
			c.touch(fn)
			base, _, _ := fieldOf(ia.X)
			s := lenSetAt(c.P, fn, ia.Block(), base, 0)
			// lengths <= k must be excluded
			var low lenSet
			for i := int64(0); i <= k && i <= lenTop; i++ {
				low |= 1 << uint(i)
			}
			top := topOf(fn)
			c.check(rule, stableName(top)+": Exprs["+itoa(int(k))+"] #"+itoa(perTopCount(c, rule, top))+" is within the checked arity", ia.Pos(), s&low == 0, "the dominating conditions on len(e.Exprs) exclude every length <= "+itoa(int(k)), "e.Exprs["+itoa(int(k))+"] can be reached with fewer than "+itoa(int(k)+1)+" arguments: a function call with the wrong number of parameters panics (index out of range) inside the parser instead of returning the arity error")
		}
	}
	c.floor(rule, "constant-index accesses to a function call's argument list", n, 10)
}

// lenSetAt: the possible lengths of base.Exprs when control is at block b of fn:
// the union over all acyclic entry-to-b paths of the intersection of the path's
// conditions; for a private helper with a single call site the set holding at
// the call site is the starting point.
func lenSetAt(P *Prog, fn *ssa.Function, b *ssa.BasicBlock, base ssa.Value, depth int) lenSet {
	same := func(v ssa.Value) bool {
		b2, f2, ok2 := fieldOf(v)
		return ok2 && f2 != nil && f2.Name() == "Exprs" && (sameValue(b2, base) || strip(b2) == strip(base))
	}
	start := lenAll
	if p, isP := strip(base).(*ssa.Parameter); isP && p.Parent() == fn && fn.Parent() == nil && depth < 3 {
		sites := callSitesOf(P, fn)
		if len(sites) == 1 && !sites[0].Common().IsInvoke() {
			idx := -1
			for i, q := range fn.Params {
				if q == p {
					idx = i
				}
			}
			if idx >= 0 && idx < len(sites[0].Common().Args) {
				start = lenSetAt(P, sites[0].Parent(), sites[0].Block(), sites[0].Common().Args[idx], depth+1)
			}
		}
	}
	var union lenSet
	n, complete := pathsTo(fn.Blocks[0], b, func(p pathAtoms) bool {
		s := start
		for _, a := range p.atoms {
			s &= lenSetOf(a.v, a.pos, same, 0)
		}
		union |= s
		return true
	})
	if !complete || n == 0 {
		return start
	}
	return union
}

func fieldKeyOfLoad(v ssa.Value) string {
	_, f, ok := fieldOf(v)
	if !ok || f == nil {
		return ""
	}
	return f.Name()
}

// ruleC16j: raw client bytes are not decoded on the caller's goroutine.
func ruleC16j(c *Ctx, rule string) {
	c.describe(rule, "dom: (*DB).InsertRaw runs on the caller's goroutine, outside the per-entry recover barrier; the only decoding of the client-supplied raw byte maps it performs — bytemap.ByteMap.AsMap for trace output, which does no bounds checking — happens under log.IsTraceEnabled(); evaluated unconditionally (as an argument of Tracef) a truncated or garbled raw dimension map panics the caller instead of being skipped by the ingest barrier")
	ir := c.need(rule, "(*z.DB).InsertRaw")
	if ir == nil {
		return
	}
	n := 0
	for _, f := range withHelpers(c.P, ir) {
		for _, call := range calls(f) {
			cn := calleeName(call)
			if cn != "(github.com/getlantern/bytemap.ByteMap).AsMap" && cn != "(github.com/getlantern/bytemap.ByteMap).Iterate" && cn != "(github.com/getlantern/bytemap.ByteMap).IterateValues" {
				continue
			}
			n++
			guarded := false
			for _, g := range guardsAcross(c.P, call.Block(), ir) {
				if cl, ok := g.v.(*ssa.Call); ok && g.pos && strings.HasSuffix(calleeName(cl), ".IsTraceEnabled") {
					guarded = true
				}
			}
			c.check(rule, "InsertRaw: decoding #"+itoa(n)+" of the raw byte map only for trace output", call.Pos(), guarded, "under log.IsTraceEnabled()", "InsertRaw decodes the client's raw byte map ("+cn+") unconditionally on the caller's goroutine: the decoder does no bounds checking, so a truncated or garbled map panics the inserting caller (e.g. the RPC handler) instead of being rejected or skipped")
		}
	}
	c.floor(rule, "byte map decodings in InsertRaw", n, 1)
	// slicing the raw map with the dimension whitelist is not optional: it must run under a recover barrier
	m := 0
	for _, f := range withHelpers(c.P, ir) {
		for _, call := range calls(f) {
			if calleeName(call) != "(github.com/getlantern/bytemap.ByteMap).Slice" {
				continue
			}
			m++
			barrier := false
			for _, d := range calls(f) {
				df, isDefer := d.(*ssa.Defer)
				if !isDefer {
					continue
				}
				var body *ssa.Function
				switch x := df.Call.Value.(type) {
				case *ssa.MakeClosure:
					body, _ = x.Fn.(*ssa.Function)
				case *ssa.Function:
					body = x
				}
				if body != nil && len(callsTo(body, "builtin recover")) > 0 {
					barrier = true
				}
			}
			c.check(rule, "InsertRaw: whitelist slicing #"+itoa(m)+" of the raw byte map runs under a recover barrier", call.Pos(), barrier, "the function that calls ByteMap.Slice defers a recover and reports an error", "ByteMap.Slice — which does no bounds checking — is applied to the client's raw dimension map on the caller's goroutine without a recover barrier: with a dimension whitelist configured a truncated or garbled map panics the inserting caller (the RPC insert handler)")
		}
	}
	c.floor(rule, "whitelist slicing of the raw byte map", m, 1)
}
