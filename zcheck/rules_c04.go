package main

import (
	"go/token"
	"go/types"
	"sort"
	"strings"

	"golang.org/x/tools/go/ssa"
)

// Purity obligations shared by C04 (read-only queries), C05 (operands are
// never modified) and C17 (coalesced consumers share the sequences).

// designatedWriters: (function, parameter index) pairs that write sequence
// bytes by design.
var designatedWriters = map[string]string{
	"(z/encoding.Sequence).SetUntil/0":            "writes the until header of its receiver by contract (callers must own the sequence)",
	"(z/encoding.Sequence).UpdateValueAt/0":       "ingest: in-place update of the receiver's period",
	"(z/encoding.Sequence).UpdateValueAtOffset/0": "ingest: in-place update of the receiver's period",
	"(z/encoding.Sequence).Update/0":              "ingest: updates the receiver (memstore owner)",
	"(z/encoding.Sequence).UpdateValue/0":         "ingest: updates the receiver (memstore owner)",
	"(z/encoding.Sequence).SubMerge/0":            "the receiver is the query's own accumulator",
}

var theModsum *modsum

func getModsum(c *Ctx) *modsum {
	if theModsum == nil || theModsum.P != c.P {
		theModsum = newModsum(c.P)
	}
	return theModsum
}

type purityResult struct {
	violations []string // stable keys of root-cause functions
	n          int
}

func isSeqType(t types.Type) bool { return typeStr(t) == "z/encoding.Sequence" }
func isSeqContainer(t types.Type) bool {
	s, ok := t.Underlying().(*types.Slice)
	return ok && isSeqType(s.Elem())
}

// rulePurity emits the purity obligations under the given rule id.
func rulePurity(c *Ctx, rule string) purityResult {
	c.describe(rule, "modsum (interprocedural write-effect summaries with origin tracking over all module functions, dynamic calls resolved through the VTA call graph): no function writes bytes through a parameter/receiver of type encoding.Sequence (designated ingest writers and the SubMerge accumulator excepted), through an element of a []encoding.Sequence / core.Vals parameter, through the x/y operands of any expr.Expr.Merge, the buffer of Expr.Get, or the 'other' operand of any expr.SubMerge function")
	m := getModsum(c)
	var res purityResult
	subMergeSig := (*types.Signature)(nil)
	if n := c.P.Named("z/expr", "SubMerge"); n != nil {
		subMergeSig, _ = n.Underlying().(*types.Signature)
	}
	exprIface := (*types.Interface)(nil)
	if n := c.P.Named("z/expr", "Expr"); n != nil {
		exprIface, _ = n.Underlying().(*types.Interface)
	}
	nSeq, nCont, nExpr, nSub := 0, 0, 0, 0
	type ob struct {
		fn   *ssa.Function
		i    int
		kind string
	}
	var obs []ob
	for _, fn := range m.fns {
		p := pkgOf(fn)
		if strings.HasPrefix(p, "z/cmd") || strings.HasPrefix(p, "z/testsupport") {
			continue
		}
		isExprMethod := false
		if fn.Signature.Recv() != nil && exprIface != nil && fn.Parent() == nil {
			rt := fn.Signature.Recv().Type()
			if types.Implements(rt, exprIface) || types.Implements(types.NewPointer(rt), exprIface) {
				isExprMethod = true
			}
		}
		isSubMerge := subMergeSig != nil && types.Identical(fn.Signature.Params(), subMergeSig.Params()) && fn.Signature.Results().Len() == 0 && fn.Signature.Recv() == nil
		for i, prm := range fn.Params {
			switch {
			case isSeqType(prm.Type()):
				nSeq++
				obs = append(obs, ob{fn, i, "sequence parameter"})
			case isSeqContainer(prm.Type()):
				nCont++
				obs = append(obs, ob{fn, i, "sequence-container parameter"})
			case isExprMethod && fn.Name() == "Merge" && i >= 2 && isByteSlice(prm.Type()):
				nExpr++
				obs = append(obs, ob{fn, i, "Expr.Merge operand"})
			case isExprMethod && fn.Name() == "Get" && i == 1 && isByteSlice(prm.Type()):
				nExpr++
				obs = append(obs, ob{fn, i, "Expr.Get buffer"})
			case isSubMerge && i == 1:
				nSub++
				obs = append(obs, ob{fn, i, "SubMerge 'other' operand"})
			}
		}
	}
	sort.SliceStable(obs, func(a, b int) bool { return obs[a].fn.Pos() < obs[b].fn.Pos() })
	var propagated []string
	for _, o := range obs {
		c.touch(o.fn)
		sum := m.sums[o.fn]
		inst := stableName(o.fn) + " does not write " + o.kind + " " + paramName(o.fn, o.i)
		key := stableName(o.fn) + "/" + itoa(o.i)
		if why, ok := designatedWriters[key]; ok {
			c.ok(rule, inst, o.fn.Pos(), "designated writer: "+why)
			continue
		}
		res.n++
		if sum.writes&pbit(o.i) != 0 {
			root, rp, lines := m.chain(o.fn, o.i)
			rootKey := stableName(root) + " writes " + paramName(root, rp)
			res.violations = append(res.violations, rootKey)
			if root == o.fn && rp == o.i {
				c.bad(rule, rootKey, o.fn.Pos(), "bytes reachable from this parameter may be written: a query-side consumer or combiner modifies a sequence it does not own", lines...)
			} else {
				propagated = append(propagated, inst+" (via "+rootKey+")")
			}
			continue
		}
		if ext := sum.unknown[o.i]; len(ext) > 0 {
			c.undecided(rule, inst, o.fn.Pos(), "the parameter is passed to external function(s) of unknown write effect: "+strings.Join(ext, ", ")+" (add them to the writer or pure-reader table after reading their contract)")
			continue
		}
		c.ok(rule, inst, o.fn.Pos(), "no write event reaches bytes of this parameter (direct, via callees, via closures)")
	}
	if len(propagated) > 0 {
		// callers that inherit the write effect: one summarising obligation so the
		// report stays readable; the root cause carries the path
		rootReported := false
		for _, o := range c.Obs {
			if o.Rule == rule && (o.Verdict == VIOLATION || o.Verdict == KNOWN) {
				rootReported = true
			}
		}
		if rootReported {
			c.Notes = append(c.Notes, "functions inheriting a write effect from a reported root cause: "+strings.Join(propagated, "; "))
		} else {
			c.bad(rule, "inherited write effects without a reported root", token.NoPos, "functions write through non-owned sequences via a root that carries no obligation of its own", propagated...)
		}
	}
	c.floor(rule, "functions with encoding.Sequence parameters", nSeq, 15)
	c.floor(rule, "functions with []encoding.Sequence / core.Vals parameters", nCont, 15)
	c.floor(rule, "Expr.Merge/Get operand obligations", nExpr, 30)
	c.floor(rule, "SubMerge-typed functions", nSub, 5)
	c.Notes = append(c.Notes, "modsum: "+itoa(len(m.fns))+" module functions summarised, "+itoa(m.iters)+" global iterations")
	return res
}

// ---- snapshot isolation (C18.a) ----

type isolationResult struct{ ok bool }

func ruleIsolation(c *Ctx, rule string) isolationResult {
	c.describe(rule, "modsum/reg: the snapshot handed to a scan shares no mutable memory with the live memstore: memstore.copy() installs the result of (*bytetree.Tree).Copy of its own tree, Tree.Copy stores into every new node only data of origin Fresh (fresh container and fresh sequence bytes), and rowStore.iterate scans exactly the copy taken in this call")
	m := getModsum(c)
	res := isolationResult{ok: true}
	fail := func() { res.ok = false }
	// (1) Tree.Copy: every store to node.data stores a Fresh-only value
	cp := c.need(rule, "(*z/bytetree.Tree).Copy")
	if cp == nil {
		fail()
	} else {
		sts := fieldStores(cp, "z/bytetree.node.data")
		c.floor(rule, "stores to node.data in Tree.Copy", len(sts), 1)
		for _, st := range sts {
			o := originOf(m, cp, st.Val)
			okF := o != 0 && o&^bitFresh == 0
			if !c.check(rule, "(*z/bytetree.Tree).Copy", st.Pos(), okF, "node.data of the copy is a fresh container of fresh sequence bytes", "Tree.Copy stores into the new node a data slice that is not provably fresh ("+describeOset(cp, o)+"): the snapshot shares the container and/or the sequence bytes with the live tree, which ingest updates in place — a running scan observes points inserted after it started") {
				fail()
			}
		}
		// immutable classes: node.key / edge.label are never written in place after creation
		for _, key := range []string{"z/bytetree.node.key", "z/bytetree.edge.label"} {
			n := 0
			for _, fn := range c.P.ModFns {
				if pkgOf(fn) != "z/bytetree" {
					continue
				}
				for _, in := range instrs(fn) {
					st, ok := in.(*ssa.Store)
					if !ok {
						continue
					}
					if ia, ok := st.Addr.(*ssa.IndexAddr); ok && isFieldLoad(ia.X, key) {
						n++
					}
				}
			}
			if !c.check(rule, "bytes of "+key+" are immutable", cp.Pos(), n == 0, "no in-place byte store through this field anywhere in bytetree (sharing it with the copy is safe)", "bytes of "+key+" are modified in place while Tree.Copy shares them") {
				fail()
			}
		}
	}
	// (2) memstore.copy uses Tree.Copy on its own tree
	mc := c.need(rule, "(*z.memstore).copy")
	if mc == nil {
		fail()
	} else {
		ok := false
		var pos token.Pos = mc.Pos()
		for _, st := range fieldStores(mc, "z.memstore.tree") {
			pos = st.Pos()
			if call, isC := strip(st.Val).(*ssa.Call); isC && isCall(call, "(*z/bytetree.Tree).Copy") {
				if isFieldLoad(call.Call.Args[0], "z.memstore.tree") {
					ok = true
				}
			}
		}
		// no whole-struct copy of *ms
		for _, in := range instrs(mc) {
			if st, isSt := in.(*ssa.Store); isSt {
				if u, isU := st.Val.(*ssa.UnOp); isU && u.Op == token.MUL && typeStr(u.Type()) == "z.memstore" {
					ok = false
					pos = st.Pos()
				}
			}
		}
		if !c.check(rule, "(*z.memstore).copy", pos, ok, "the copy's tree is ms.tree.Copy()", "memstore.copy() does not install (*Tree).Copy() of its own tree (or copies the struct wholesale): queries would scan the live tree") {
			fail()
		}
	}
	// (3) rowStore.iterate scans the copy taken in this call, inside the read-held region
	it := c.need(rule, "(*z.rowStore).iterate")
	if it == nil {
		fail()
	} else {
		calls_ := callsTo(it, "(*z.fileStore).iterate")
		c.floor(rule, "fileStore.iterate call in rowStore.iterate", len(calls_), 1)
		for _, call := range calls_ {
			a := call.Common().Args
			okArg := false
			if len(a) >= 3 {
				// arg 2 (ms) must be nil or the result of memstore.copy() on the load of rs.memStore
				okArg = valueOnlyFrom(a[2], func(v ssa.Value) bool {
					if isNilConst(v) {
						return true
					}
					if cl, ok := v.(*ssa.Call); ok && isCall(cl, "(*z.memstore).copy") {
						return isFieldLoad(cl.Call.Args[0], "z.rowStore.memStore")
					}
					return false
				})
			}
			if !c.check(rule, "(*z.rowStore).iterate scans a private copy", call.Pos(), okArg, "the memstore argument is nil or rs.memStore.copy() taken in this call", "rowStore.iterate hands fileStore.iterate a memstore that is not the copy taken in this call (live memstore, cached snapshot, …): the scan is not isolated from ingest / later flushes") {
				fail()
			}
		}
	}
	return res
}

// valueOnlyFrom: v, through phis, only takes values satisfying pred.
func valueOnlyFrom(v ssa.Value, pred func(ssa.Value) bool) bool {
	seen := map[ssa.Value]bool{}
	var walk func(v ssa.Value) bool
	walk = func(v ssa.Value) bool {
		if seen[v] {
			return true
		}
		seen[v] = true
		if p, ok := v.(*ssa.Phi); ok {
			for _, e := range p.Edges {
				if !walk(e) {
					return false
				}
			}
			return true
		}
		return pred(v)
	}
	return walk(v)
}

// originOf recomputes the origin set of a value inside fn (re-runs the local
// analysis and reads the value). Implemented by a dedicated pass to keep the
// summaries themselves small.
func originOf(m *modsum, fn *ssa.Function, v ssa.Value) oset {
	return m.localOrigins(fn)[v]
}

func describeOset(fn *ssa.Function, o oset) string {
	if o == 0 {
		return "no origin (nil)"
	}
	var parts []string
	if o&bitFresh != 0 {
		parts = append(parts, "fresh")
	}
	if o&bitOther != 0 {
		parts = append(parts, "loaded from the heap (shared)")
	}
	for i := 0; i < 60; i++ {
		if o&(1<<uint(i)) != 0 {
			parts = append(parts, "parameter "+paramName(fn, i))
		}
	}
	return strings.Join(parts, " + ")
}

// ruleC04c: the read path never triggers a flush.
func ruleC04c(c *Ctx, rule string) {
	c.describe(rule, "reg (who-calls): only the ingest path may ask the memory cap to flush — (*DB).capMemorySize is called with allowFlush == true only from (*table).doInsert; the query path ((*queryable).Iterate) passes the constant false; no function reachable by static calls from the query entry points calls forceFlush/FlushAll")
	n := 0
	for _, fn := range c.P.ModFns {
		if pkgOf(fn) != "z" {
			continue
		}
		for _, call := range callsTo(fn, "(*z.DB).capMemorySize") {
			n++
			top := fn
			for top.Parent() != nil {
				top = top.Parent()
			}
			v, isC := constBool(call.Common().Args[1])
			ingest := stableName(top) == "(*z.table).doInsert"
			ok := isC && (!v || ingest)
			c.check(rule, stableName(fn)+" calls capMemorySize without allowing a flush", call.Pos(), ok, "allowFlush is the constant false (or this is the ingest path)", "the memory cap may force-flush memstores from a function that is not on the ingest path: running a query rewrites the file store (a disk-only probe returns different rows before and after the query)")
		}
	}
	c.floor(rule, "capMemorySize call sites", n, 2)
	// query entry points never reach forceFlush
	seen := map[*ssa.Function]bool{}
	var stack []*ssa.Function
	for _, name := range []string{"(*z.queryable).Iterate", "(*z.DB).Query", "(*z.table).iterate"} {
		if f := c.P.Func(name); f != nil {
			stack = append(stack, f)
			seen[f] = true
		}
	}
	bad := ""
	for len(stack) > 0 {
		f := stack[len(stack)-1]
		stack = stack[:len(stack)-1]
		for _, g := range withAnon(f) {
			for _, call := range calls(g) {
				cn := calleeName(call)
				if cn == "(*z.table).forceFlush" || cn == "(*z.rowStore).forceFlush" || cn == "(*z.DB).FlushAll" {
					bad = stableName(g) + " -> " + cn
				}
				if sc := call.Common().StaticCallee(); sc != nil && pkgOf(sc) == "z" && !seen[sc] && sc.Name() != "capMemorySize" {
					seen[sc] = true
					stack = append(stack, sc)
				}
			}
		}
	}
	c.check(rule, "query entry points never force a flush", token.NoPos, bad == "", "no static path from Query/Iterate to forceFlush/FlushAll", "the query path can force a flush: "+bad)
}

func init() {
	register(&PropSpec{
		ID:          "C04",
		Explanation: "Decides the mechanism 'no query-path function can write bytes of a stored sequence': C04 holds if stored sequences are unreachable for writes from the read path. Two structural clauses are evaluated and combined: (P) purity — no module function writes through a sequence it was handed (interprocedural write-effect summaries over all module functions, 100+ obligations), and (I) isolation — scans run over a private deep copy of the memstore (Tree.Copy stores only fresh data; memstore.copy and rowStore.iterate use it) and over freshly read file rows. A violation is reported when BOTH fail (a write can then reach stored bytes), or when rowStore.iterate scans a memstore snapshot that was not taken by that very call (a cached or live snapshot makes one query's execution visible to later queries); a failure of purity or copy-depth alone is reported by C05/C17 resp. C18. Further clauses: the read path never forces a flush, never renames/removes/creates files, and no expression method rewrites its receiver (expressions are shared between table definition and query plans).",
		NotDecided:  []string{"flows that lose their origin through heap fields/channels (covered indirectly: the same callees are reached by tracked flows)", "the file store's immutability on disk (files are only replaced by rename)"},
		Assumptions: []string{"external pure-reader table (io.Writer.Write, binary.*.Uint*, bytemap accessors, grpc SendMsg, msgpack) follows the documented contracts", "VTA call graph over-approximates dynamic calls"},
		Rules: []func(*Ctx){func(c *Ctx) {
			// evaluate both, but demote to notes unless both fail
			sub := newCtx(c.P, c.Prop, c.Tier)
			sub.Known = c.Known
			p := rulePurity(sub, "C04.a")
			i := ruleIsolation(sub, "C04.i")
			for k, v := range sub.ruleDesc {
				c.ruleDesc[k] = v
			}
			for f := range sub.fnsSeen {
				c.fnsSeen[f] = true
			}
			c.Notes = append(c.Notes, sub.Notes...)
			both := len(p.violations) > 0 && !i.ok
			for _, o := range sub.Obs {
				// a snapshot that is not taken by this very call (cached / live) makes one
				// query's execution visible to later ones regardless of purity
				standalone := o.Instance == "(*z.rowStore).iterate scans a private copy"
				if o.Verdict == VIOLATION && !both && !standalone {
					o.Verdict = OK
					o.Reason = "NOT a C04 violation by itself (the other clause holds, so stored bytes stay unreachable for writes) — reported under C05/C17 or C18: " + o.Reason
				}
				c.Obs = append(c.Obs, o)
			}
		}, func(c *Ctx) { ruleC04c(c, "C04.c") }, func(c *Ctx) { ruleC04d(c, "C04.d") }, func(c *Ctx) { ruleC04e(c, "C04.e") }},
	})
}

// ruleC04d: the read path does not touch the store's files.
func ruleC04d(c *Ctx, rule string) {
	c.describe(rule, "reg (who-may-call): functions that rename, remove or rewrite a table's files (fileStore.markCorrupted, os.Rename, os.Remove*, os.Create/OpenFile for writing, ioutil.WriteFile) are called only from the flush/open/cleanup side — never from (*rowStore).iterate, (*fileStore).iterate, (*table).iterate or what they call in package zenodb: a query whose scan fails (its deadline expires) must leave the store as it found it")
	roots := []string{"(*z.rowStore).iterate", "(*z.table).iterate", "(*z.fileStore).iterate"}
	set := map[*ssa.Function]bool{}
	var frontier []*ssa.Function
	for _, r := range roots {
		if f := c.need(rule, r); f != nil {
			set[f] = true
			frontier = append(frontier, f)
		}
	}
	for d := 0; d < 4 && len(frontier) > 0; d++ {
		var next []*ssa.Function
		for _, f := range frontier {
			for _, h := range withAnon(f) {
				for _, call := range calls(h) {
					if _, isDefer := call.(*ssa.Defer); isDefer {
						// deferred bookkeeping still belongs to the read path
					}
					g := call.Common().StaticCallee()
					if g != nil && inModule(g) && pkgOf(g) == "z" && !set[g] && len(g.Blocks) > 0 {
						set[g] = true
						next = append(next, g)
					}
				}
			}
		}
		frontier = next
	}
	mutators := map[string]bool{
		"(*z.fileStore).markCorrupted": true, "os.Rename": true, "os.Remove": true, "os.RemoveAll": true,
		"os.Create": true, "os.OpenFile": true, "io/ioutil.WriteFile": true, "os.WriteFile": true, "io/ioutil.TempFile": true, "os.Truncate": true, "os.Mkdir": true, "os.MkdirAll": true,
	}
	var fns []*ssa.Function
	for f := range set {
		fns = append(fns, f)
	}
	sort.Slice(fns, func(i, j int) bool { return fns[i].Pos() < fns[j].Pos() })
	bad := 0
	for _, f := range fns {
		for _, h := range withAnon(f) {
			for _, call := range calls(h) {
				if mutators[calleeName(call)] {
					if calleeName(call) == "os.OpenFile" {
						// read-only open (flag constant without write/create/truncate/append bits)
						if k, isK := constInt(call.Common().Args[1]); isK && k&(0x1|0x2|0x40|0x200|0x400) == 0 {
							continue
						}
					}
					bad++
					c.touch(h)
					c.bad(rule, stableName(f)+" (read path) calls "+calleeName(call), call.Pos(), "a function on the query path changes the table's files: a scan that ends with an error (e.g. core.ErrDeadlineExceeded from the scan guard) moves the healthy file store away, later queries silently see memstore rows only and the next flush writes a file without the flushed data")
				}
			}
		}
	}
	if bad == 0 {
		c.ok(rule, "the read path ("+itoa(len(fns))+" functions of package zenodb reachable from the iterate entry points) never changes files", token.NoPos, "no call to a file-mutating function")
	}
	c.floor(rule, "functions on the read path", len(fns), 3)
}

// ruleC04e: planning and evaluating a query never rewrites the table's own
// expression objects.
func ruleC04e(c *Ctx, rule string) {
	c.describe(rule, "reg: no method of an expression type in package expr assigns a field of its receiver, except decoding (DecodeMsgpack) — the planner hands out the table's own expression objects, so a method that rewrites its receiver in place (e.g. DeAggregate building its result in the receiver) changes the stored table definition at plan time: widths and names of table fields change under a running database")
	n := 0
	var names []string
	byName := map[string]*ssa.Function{}
	for fn := range c.P.AllFns {
		if fn.Signature.Recv() == nil || fn.Synthetic != "" || len(fn.Blocks) == 0 || pkgOf(fn) != "z/expr" || fn.Parent() != nil {
			continue
		}
		if _, isPtr := fn.Signature.Recv().Type().(*types.Pointer); !isPtr {
			continue
		}
		nm := stableName(fn)
		if _, dup := byName[nm]; !dup {
			byName[nm] = fn
			names = append(names, nm)
		}
	}
	sort.Strings(names)
	for _, nm := range names {
		fn := byName[nm]
		if fn.Name() == "DecodeMsgpack" {
			continue
		}
		n++
		recv := fn.Params[0]
		bad := ""
		for _, f := range withAnon(fn) {
			for _, in := range instrs(f) {
				st, ok := in.(*ssa.Store)
				if !ok {
					continue
				}
				fa, ok := st.Addr.(*ssa.FieldAddr)
				if !ok {
					continue
				}
				base := strip(fa.X)
				if fv, isFV := base.(*ssa.FreeVar); isFV {
					base = cellRoot(fv)
				}
				// direct, or through a local alias of the receiver (result := e)
				if base == ssa.Value(recv) || resolveVal(c.P, base, fn) == ssa.Value(recv) {
					if fld := fieldVar(fa.X.Type(), fa.Field); fld != nil {
						bad = fld.Name() + " at " + c.P.Pos(st.Pos())
					}
				}
				if ph, isPhi := base.(*ssa.Phi); isPhi {
					for _, e := range ph.Edges {
						if e == ssa.Value(recv) {
							if fld := fieldVar(fa.X.Type(), fa.Field); fld != nil {
								bad = fld.Name() + " at " + c.P.Pos(st.Pos())
							}
						}
					}
				}
			}
		}
		if bad != "" {
			c.touch(fn)
			c.bad(rule, nm+" does not assign its receiver's fields", fn.Pos(), "the method rewrites field "+bad+" of the expression it is called on: expressions are shared between the table definition and every query plan, so calling it while planning a query changes the table's field (width, name, operands) for ingest, flush and all later queries")
		}
	}
	// constructors and helpers: a function of package expr assigns fields only of objects it
	// allocated itself — never of an expression it was handed (SHIFT folding a nested shift in place)
	m := 0
	for _, fn := range c.P.ModFns {
		if pkgOf(fn) != "z/expr" || fn.Name() == "DecodeMsgpack" || fn.Signature.Recv() != nil && fn.Parent() == nil {
			continue
		}
		m++
		for _, in := range instrs(fn) {
			st, ok := in.(*ssa.Store)
			if !ok {
				continue
			}
			fa, ok := st.Addr.(*ssa.FieldAddr)
			if !ok {
				continue
			}
			// only fields of expression objects
			pt, isP := fa.X.Type().Underlying().(*types.Pointer)
			if !isP {
				continue
			}
			nt, isN := pt.Elem().(*types.Named)
			if !isN || nt.Obj().Pkg() == nil || short(nt.Obj().Pkg().Path()) != "z/expr" {
				continue
			}
			if _, isStruct := nt.Underlying().(*types.Struct); !isStruct {
				continue
			}
			base := strip(fa.X)
			fresh := false
			if al, isAl := base.(*ssa.Alloc); isAl && al.Parent() == fn {
				fresh = true
			}
			if ph, isPhi := base.(*ssa.Phi); isPhi {
				fresh = true
				for _, e := range ph.Edges {
					if al, isAl := strip(e).(*ssa.Alloc); !isAl || al.Parent() != fn {
						fresh = false
					}
				}
			}
			// methods' closures writing their own receiver are covered above
			if fv, isFV := base.(*ssa.FreeVar); isFV {
				_ = fv
				continue
			}
			if _, isParamRecv := base.(*ssa.Parameter); isParamRecv && fn.Parent() != nil {
				continue
			}
			if !fresh {
				c.touch(fn)
				c.bad(rule, stableName(fn)+" assigns fields only of expressions it allocated", st.Pos(), "a function of package expr writes a field of an expression object it did not allocate (at "+c.P.Pos(st.Pos())+"): the object may be a table's stored field (queries get the table's own expression objects), so building a query expression changes the table definition")
			}
		}
	}
	if n > 0 {
		c.ok(rule, itoa(n)+" pointer-receiver methods and "+itoa(m)+" functions of package expr examined", token.NoPos, "fields of existing expression objects are assigned only by DecodeMsgpack (and reported individually otherwise)")
	}
	c.floor(rule, "pointer-receiver methods in package expr", n, 60)
}
