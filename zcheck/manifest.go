package main

import (
	"encoding/json"
	"fmt"
	"os"
	"sort"
	"strings"
)

var allProps = []string{"C01", "C02", "C03", "C04", "C05", "C06", "C07", "C08", "C09", "C10", "C11", "C12", "C13", "C14", "C15", "C16", "C17", "C18", "C19", "C20"}

// notApplicable: properties not claimed, with the reason (kept current by hand).
var notApplicable = map[string]string{}

var techniques = map[string]string{}

func genManifest(path string) {
	type lvl struct {
		Category  string `json:"category"`
		Text      string `json:"text"`
		DesignRef string `json:"design_ref"`
	}
	type chk struct {
		PropertyID string `json:"property_id"`
		Quick      string `json:"quick_cmd"`
		Thorough   string `json:"thorough_cmd"`
		Evidence   string `json:"evidence_file"`
		Replay     string `json:"replay_cmd_template"`
		Engine     string `json:"engine"`
		Level      lvl    `json:"level_claimed"`
		Note       string `json:"level_note"`
		Technique  string `json:"technique"`
	}
	type na struct {
		PropertyID string `json:"property_id"`
		Reason     string `json:"reason"`
	}
	var checks []chk
	nas := []na{}
	var ids []string
	for id := range registry {
		ids = append(ids, id)
	}
	sort.Strings(ids)
	for _, id := range allProps {
		spec := registry[id]
		if spec == nil {
			r := notApplicable[id]
			if r == "" {
				r = "check not built yet (planned: DESIGN.md section 4)"
			}
			nas = append(nas, na{id, r})
			continue
		}
		tech := techniques[id]
		if tech == "" {
			tech = "static analysis: repository-specific rules over go/types + go/ssa (dominance, path enumeration, error-flow, effect summaries) on the resolved program"
		}
		checks = append(checks, chk{
			PropertyID: id,
			Quick:      "/verif/bin/zcheck -p " + id + " -tier quick",
			Thorough:   "/verif/bin/zcheck -p " + id + " -tier thorough",
			Evidence:   "/verif/evidence/" + id + ".json",
			Replay:     "/verif/bin/zcheck -replay {path}",
			Engine:     "zcheck",
			Level: lvl{"other", "Static analysis of the current source (types+SSA+call graph), all paths and call sites, no execution. " + spec.Explanation +
				" This is the level static analysis can reach for this property: it decides the named structural clauses for every input/schedule, not the runtime behaviour as a whole.", "DESIGN.md §4 " + id},
			Note:      "Not decided by this check: " + strings.Join(spec.NotDecided, "; ") + ". Trusted: " + strings.Join(spec.Assumptions, "; ") + ".",
			Technique: tech,
		})
	}
	m := map[string]interface{}{
		"version":   1,
		"setup_cmd": "cd /verif/zcheck && GOFLAGS=-mod=mod GOPROXY=off GOSUMDB=off GOTOOLCHAIN=local GOWORK=off go build -o /verif/bin/zcheck .",
		"hooks": map[string]interface{}{
			"guard":            "verif",
			"enable":           "none needed: static analysis reads /repo's sources; no instrumentation exists, so there is nothing to enable",
			"baseline_off_cmd": "cd /repo && go build ./... && go test -vet=off -count=1 -timeout 25m ./...",
			"source_commits":   []string{},
			"add_only":         true,
		},
		"engines": []map[string]interface{}{
			{"name": "zcheck", "path": "/verif/zcheck", "serves_properties": ids,
				"kind_free_text": "custom Go static analyser (golang.org/x/tools v0.29.0: go/packages, go/ssa, callgraph cha+vta): dominance/edge-reachability, error-flow, path enumeration with branch atoms, write-effect summaries, value-flow, lock regions, type/registry queries; rule tables per property"},
		},
		"checks":         checks,
		"not_applicable": nas,
		"notes":          "All checks are static (no part of zenodb is executed). Each decides named structural clauses (DESIGN.md §4) and fails on unresolved anchors, instance counts below the confirmed floor, undecided obligations, type errors or analyser panics. Genuine defects found are listed in /verif/known_findings.json: those that could be repaired by a small fix: commit are recorded as fixed (the rule that found each keeps watching for its return), those that could not (the existing tests pin the behaviour, or the defect is in a dependency) are recorded as known and printed as KNOWN-FINDING lines (DESIGN.md §5).",
	}
	b, _ := json.MarshalIndent(m, "", " ")
	if err := os.WriteFile(path, append(b, '\n'), 0o644); err != nil {
		fmt.Println("ERROR:", err)
		os.Exit(2)
	}
}
