package main

import (
	"go/token"
	"go/types"
	"strings"

	"golang.org/x/tools/go/ssa"
)

// C17 — concurrent (coalesced) queries each get their solo result.

// combinedCallback finds the shared-scan callback of doProcessIterations: the
// nested function that calls a load of field iteration.onValue.
func combinedCallback(c *Ctx, rule string) (*ssa.Function, *ssa.Call) {
	dp := c.need(rule, "(*z.DB).doProcessIterations")
	if dp == nil {
		return nil, nil
	}
	for _, a := range withAnon(dp)[1:] {
		for _, call := range calls(a) {
			if cv, ok := call.(*ssa.Call); ok && call.Common().StaticCallee() == nil && !call.Common().IsInvoke() && isFieldLoad(call.Common().Value, "z.iteration.onValue") {
				c.touch(a)
				return a, cv
			}
		}
	}
	c.undecided(rule, "shared-scan callback of doProcessIterations", dp.Pos(), "no nested function calling iteration.onValue found")
	return nil, nil
}

func ruleC17a(c *Ctx) {
	const rule = "C17.a"
	c.describe(rule, "dom: in the shared-scan callback the value slice handed to each consumer is allocated inside the per-consumer loop (never hoisted and shared between consumers)")
	cb, call := combinedCallback(c, rule)
	if cb == nil {
		return
	}
	arg := call.Call.Args[1]
	ms, ok := root(arg).(*ssa.MakeSlice)
	if !ok {
		c.bad(rule, "per-consumer value slice", call.Pos(), "the slice passed to iteration.onValue is not a fresh make() in the callback ("+describeOperand(arg)+"): consumers would share (and a field-mapping write would corrupt) one container")
		return
	}
	// outermost loop containing the call
	var outer *loopInfo
	for _, l := range loopsContaining(cb, call.Block()) {
		l := l
		if outer == nil || len(l.body) > len(outer.body) {
			outer = &l
		}
	}
	okIn := outer != nil && outer.body[ms.Block()]
	c.check(rule, "per-consumer value slice", ms.Pos(), okIn, "make([]Sequence, len(it.outFields)) is executed once per consumer per row", "the value slice is allocated outside the per-consumer loop: all coalesced consumers receive the same container")
}

func ruleC17d(c *Ctx) {
	const rule = "C17.d"
	c.describe(rule, "flow: a consumer's error (result of its onValue) is not returned from the shared-scan callback (which would abort the scan for all), is stored only into that consumer's own iteration, and every value sent on an iteration's errCh is the scan's own error or that same iteration's recorded error")
	cb, call := combinedCallback(c, rule)
	if cb == nil {
		return
	}
	e := resultOf(call, 1)
	if e == nil {
		c.bad(rule, "consumer error handled", call.Pos(), "the consumer's error is dropped")
		return
	}
	isE := func(v ssa.Value) bool { return v == e }
	// (1) not returned
	leak := false
	for _, in := range instrs(cb) {
		if r, ok := in.(*ssa.Return); ok {
			for _, rv := range r.Results {
				if isErrorType(rv.Type()) && dependsOn(rv, isE) {
					leak = true
				}
			}
		}
	}
	c.check(rule, "consumer error is not returned to the shared scan", call.Pos(), !leak, "the callback's error result does not depend on a consumer's error", "the shared-scan callback returns one consumer's error: the scan aborts and every coalesced query receives an error/truncated result caused by another query")
	// (2) stored only into the same iteration
	base, _, _ := fieldOf(strip(call.Call.Value))
	okStore := true
	nStore := 0
	for _, in := range instrs(cb) {
		st, ok := in.(*ssa.Store)
		if !ok || !dependsOn(st.Val, isE) {
			continue
		}
		// varargs packing for logging is fine
		if ia, ok := st.Addr.(*ssa.IndexAddr); ok {
			if _, isAlloc := ia.X.(*ssa.Alloc); isAlloc {
				continue
			}
		}
		nStore++
		fa, ok := st.Addr.(*ssa.FieldAddr)
		if !ok || base == nil || !sameValue(fa.X, base) {
			okStore = false
		}
	}
	c.check(rule, "consumer error recorded on its own iteration", call.Pos(), okStore && nStore > 0, "the error is stored into a field of the iteration whose onValue produced it", "the consumer's error is not recorded on its own iteration (dropped, or stored somewhere shared)")
	// (3) sends on errCh in doProcessIterations
	dp := cb.Parent()
	scanErr := ssa.Value(nil)
	for _, sc := range callsTo(dp, "(*z.rowStore).iterate") {
		if cv, ok := sc.(*ssa.Call); ok {
			scanErr = resultOf(cv, 1)
		}
	}
	n := 0
	for _, in := range instrs(dp) {
		sd, ok := in.(*ssa.Send)
		if !ok || !isFieldLoad(sd.Chan, "z.iteration.errCh") {
			continue
		}
		n++
		chBase, _, _ := fieldOf(strip(sd.Chan))
		okSend := valueOnlyFrom(sd.X, func(v ssa.Value) bool {
			if scanErr != nil && v == scanErr {
				return true
			}
			if isNilConst(v) {
				return true
			}
			if b, f, ok := fieldOf(strip(v)); ok && f != nil && fieldKey(b.Type(), f) == "z.iteration.err" && chBase != nil && sameValue(b, chBase) {
				return true
			}
			return false
		})
		c.check(rule, "value sent on iteration.errCh", sd.Pos(), okSend, "sends the scan's own error or the same iteration's recorded error", "a value other than the scan's own error / this iteration's own error is delivered to an iteration")
	}
	c.floor(rule, "sends on iteration.errCh", n, 1)
}

func ruleC17e(c *Ctx) {
	const rule = "C17.e"
	c.describe(rule, "dom/pathstate(bool): a consumer that returned more==false (or failed) is removed from the remaining set before the next consumer/row; the shared scan's own 'more' is true only if some consumer asked for more")
	cb, call := combinedCallback(c, rule)
	if cb == nil {
		return
	}
	more := resultOf(call, 0)
	// find the If testing (a phi of) the consumer's more
	var test *ssa.If
	for _, b := range cb.Blocks {
		i := ifOf(b)
		if i == nil {
			continue
		}
		v, _ := unNot(i.Cond, true)
		if v == more {
			test = i
		}
		if p, ok := v.(*ssa.Phi); ok {
			for _, e := range p.Edges {
				if e == more {
					test = i
				}
			}
		}
	}
	if test == nil || more == nil {
		c.bad(rule, "stopped consumer is removed", call.Pos(), "the consumer's 'more' result is not tested")
		return
	}
	_, pol := unNot(test.Cond, true)
	falseSucc := test.Block().Succs[1]
	trueSucc := test.Block().Succs[0]
	if !pol {
		falseSucc, trueSucc = trueSucc, falseSucc
	}
	dels := callsTo(cb, "builtin delete")
	avoid := blockSet{}
	for _, d := range dels {
		avoid[d.Block()] = true
	}
	l := innermostLoopOuter(cb, call.Block())
	ok := l != nil && len(dels) > 0 && (avoid[falseSucc] || !reach([]*ssa.BasicBlock{falseSucc}, avoid, nil)[l.header])
	c.check(rule, "stopped consumer is removed", test.Pos(), ok, "more==false reaches delete(remainingIterations, i) before the next consumer", "a consumer that returned more==false can be fed again (LIMIT 'never more' broken) — delete() is not on every path from the false outcome")
	// scan's own more
	okMore := true
	nRet := 0
	for _, in := range instrs(cb) {
		r, isR := in.(*ssa.Return)
		if !isR || len(r.Results) != 2 {
			continue
		}
		nRet++
		okMore = okMore && valueOnlyFromPhi(r.Results[0], func(v ssa.Value, from *ssa.BasicBlock) bool {
			b, isC := constBool(v)
			if !isC {
				return false
			}
			if !b {
				return true
			}
			// true: the incoming edge's block must be reachable only via the consumer's more==true
			return from != nil && (from == trueSucc || edgeDominates(test, pol, from))
		})
	}
	c.check(rule, "scan continues only if a consumer wants more", test.Pos(), okMore && nRet > 0, "the callback's more is false initially and set true only on the more==true side of a consumer", "the shared scan's 'more' can be true without any consumer having asked for more (or is not a boolean accumulation)")
}

// innermostLoopOuter returns the outermost loop containing b.
func innermostLoopOuter(fn *ssa.Function, b *ssa.BasicBlock) *loopInfo {
	var outer *loopInfo
	for _, l := range loopsContaining(fn, b) {
		l := l
		if outer == nil || len(l.body) > len(outer.body) {
			outer = &l
		}
	}
	return outer
}

// valueOnlyFromPhi: like valueOnlyFrom but passes the predecessor block of the
// phi edge the leaf value arrives through.
func valueOnlyFromPhi(v ssa.Value, pred func(ssa.Value, *ssa.BasicBlock) bool) bool {
	seen := map[ssa.Value]bool{}
	var walk func(v ssa.Value, from *ssa.BasicBlock) bool
	walk = func(v ssa.Value, from *ssa.BasicBlock) bool {
		if p, ok := v.(*ssa.Phi); ok {
			if seen[p] {
				return true
			}
			seen[p] = true
			for i, e := range p.Edges {
				if !walk(e, p.Block().Preds[i]) {
					return false
				}
			}
			return true
		}
		return pred(v, from)
	}
	return walk(v, nil)
}

func ruleC17f(c *Ctx) {
	const rule = "C17.f"
	c.describe(rule, "dom: two iterations are coalesced into one shared scan only if they agree on every field that parametrises the scan and cannot be served as a superset: the table and includeMemStore")
	fn := c.need(rule, "(*z.DB).coalesceIteration")
	if fn == nil {
		return
	}
	// the coalescing append: a builtin append inside the loop whose result feeds
	// the slice sent on db.coalescedIterations
	var sent ssa.Value
	for _, in := range instrs(fn) {
		if sd, ok := in.(*ssa.Send); ok && isFieldLoad(sd.Chan, "z.DB.coalescedIterations") {
			sent = sd.X
		}
	}
	if sent == nil {
		c.undecided(rule, "send on coalescedIterations", fn.Pos(), "not found")
		return
	}
	n := 0
	for _, call := range callsTo(fn, "builtin append") {
		cv, isV := call.(ssa.Value)
		if !isV || typeStr(call.Common().Args[0].Type()) != "[]*z.iteration" {
			continue
		}
		if len(loopsContaining(fn, call.Block())) == 0 {
			continue // the initial append([]*iteration(nil), it)
		}
		if !dependsOn(sent, func(v ssa.Value) bool { return v == cv }) {
			continue // the re-enqueue list
		}
		var hasT, hasMS bool
		for _, g := range guardsOf(call.Block()) {
			b, ok := g.v.(*ssa.BinOp)
			if !ok {
				continue
			}
			eq := (b.Op == token.EQL && g.pos) || (b.Op == token.NEQ && !g.pos)
			if !eq {
				continue
			}
			if isFieldLoad(b.X, "z.iteration.t") && isFieldLoad(b.Y, "z.iteration.t") {
				hasT = true
			}
			if isFieldLoad(b.X, "z.iteration.includeMemStore") && isFieldLoad(b.Y, "z.iteration.includeMemStore") {
				hasMS = true
			}
		}
		n++
		c.check(rule, "coalescing requires same table", call.Pos(), hasT, "guarded by it2.t == it.t", "iterations of different tables can be coalesced")
		c.check(rule, "coalescing requires same includeMemStore", call.Pos(), hasMS, "guarded by it2.includeMemStore == it.includeMemStore", "iterations that differ in includeMemStore are coalesced into one scan: a disk-only query is served memstore rows (or a memstore query loses them) depending on which other queries happen to run")
	}
	c.floor(rule, "coalescing append sites", n, 1)
}

func ruleIdentity(c *Ctx, rule string) {
	// hasOutField (closure in doProcessIterations) and indexOfOutField agree on field identity
	classify := func(fn *ssa.Function) string {
		for _, in := range instrs(fn) {
			if b, ok := in.(*ssa.BinOp); ok && b.Op == token.EQL {
				if isCallValue(b.X, "(z/core.Field).String") && isCallValue(b.Y, "(z/core.Field).String") {
					return "Field.String() equality (name and expression)"
				}
				if bt, ok := b.X.Type().Underlying().(*types.Basic); ok && bt.Info()&types.IsString != 0 {
					return "other string comparison"
				}
			}
			if call, ok := in.(*ssa.Call); ok && isCall(call, "(z/core.Field).Equals") {
				return "Field.Equals (name and expression)"
			}
		}
		return ""
	}
	dp := c.need(rule, "(*z.DB).doProcessIterations")
	idx := c.need(rule, "(*z.iteration).indexOfOutField")
	if dp == nil || idx == nil {
		return
	}
	// the membership test used while building the union of requested fields: a
	// closure or private helper of doProcessIterations taking a field, returning bool
	var has *ssa.Function
	for _, a := range withHelpers(c.P, dp) {
		if a == dp || a.Signature.Results().Len() != 1 || typeStr(a.Signature.Results().At(0).Type()) != "bool" {
			continue
		}
		for _, p := range a.Params {
			if typeStr(p.Type()) == "z/core.Field" {
				has = a
			}
		}
	}
	if has == nil {
		c.undecided(rule, "hasOutField closure", dp.Pos(), "not found")
		return
	}
	c.touch(has)
	a, b := classify(has), classify(idx)
	c.check(rule, "hasOutField and indexOfOutField use the same field identity", idx.Pos(), a != "" && a == b && a != "other string comparison",
		"both use "+a, "the union of requested fields is built with identity '"+a+"' but consumers map their columns with '"+b+"': a consumer can receive another field's column or none")
}

func init() {
	register(&PropSpec{
		ID:          "C17",
		Explanation: "Decides the structural clauses of non-interference between coalesced queries: (a) per-consumer containers, (b) purity of every consumer over the shared sequences (the write-effect analysis; the sequences are shared by design), (c) one field identity for building and mapping the shared column set, (d) a consumer's error neither aborts the shared scan nor reaches another consumer, (e) a stopped consumer is removed and the scan continues exactly while someone wants more, (f) only iterations that agree on table and includeMemStore are coalesced. Added clauses: coalescing only of iterations with equal table and includeMemStore; the shared scan's deadline bounds no consumer from below. Further clauses: every remaining iteration is offered every row; an iteration receives its own error or the scan's.",
		NotDecided:  []string{"timing of the coalescing window", "each consumer stopping at its own (shorter) deadline inside the shared scan is left to its own guard"},
		Assumptions: []string{"VTA call graph over-approximates dynamic calls", "external pure-reader table follows documented contracts"},
		Rules: []func(*Ctx){ruleC17a, func(c *Ctx) { rulePurity(c, "C17.b") }, func(c *Ctx) {
			c.describe("C17.c", "reg: hasOutField and indexOfOutField compare fields by the same identity")
			ruleIdentity(c, "C17.c")
		}, ruleC17d, ruleC17e, ruleC17f, ruleC17g, func(c *Ctx) { ruleC17h(c, "C17.h") }},
	})
}

// ruleC17g: the deadline of the shared scan bounds no consumer from below.
func ruleC17g(c *Ctx) {
	const rule = "C17.g"
	c.describe(rule, "flow/pathstate(bool): the context of the shared scan derives from context.Background(), never from one consumer's context; a deadline is imposed only under a flag that is cleared whenever some consumer has no deadline; the imposed deadline is the maximum (selected under deadline.After(current)) of the consumers' deadlines")
	dp := c.need(rule, "(*z.DB).doProcessIterations")
	if dp == nil {
		return
	}
	scans := callsTo(dp, "(*z.rowStore).iterate")
	c.floor(rule, "shared scan call", len(scans), 1)
	for _, sc := range scans {
		ctxArg := sc.Common().Args[1]
		okRoot := valueOnlyFrom(ctxArg, func(v ssa.Value) bool {
			v = root(v)
			if call, ok := v.(*ssa.Call); ok && isCall(call, "context.Background") {
				return true
			}
			if ex, ok := v.(*ssa.Extract); ok && ex.Index == 0 {
				if call, ok := ex.Tuple.(*ssa.Call); ok && isCall(call, "context.WithDeadline", "context.WithTimeout") {
					return valueOnlyFrom(call.Call.Args[0], func(p ssa.Value) bool {
						pc, ok := root(p).(*ssa.Call)
						return ok && isCall(pc, "context.Background")
					})
				}
			}
			return false
		})
		c.check(rule, "shared scan context is not a consumer's context", sc.Pos(), okRoot, "derived from context.Background() (optionally with the batch deadline)", "the shared scan runs under a context derived from one consumer's context: that consumer's deadline/cancellation cuts off the other coalesced queries")
	}
	wds := callsTo(dp, "context.WithDeadline")
	if len(wds) == 0 {
		c.ok(rule, "no deadline imposed on the shared scan", dp.Pos(), "no context.WithDeadline call: consumers guard their own deadlines")
		return
	}
	for _, wd := range wds {
		// g3: guarded by a boolean phi that is cleared on the no-deadline side
		cleared := false
		for _, g := range guardsOf(wd.Block()) {
			p, ok := g.v.(*ssa.Phi)
			if !ok || !g.pos {
				continue
			}
			// search the phi web for a const-false edge coming from the hasDeadline==false side
			seen := map[*ssa.Phi]bool{}
			var walk func(p *ssa.Phi)
			walk = func(p *ssa.Phi) {
				if seen[p] {
					return
				}
				seen[p] = true
				for i, e := range p.Edges {
					if q, ok := e.(*ssa.Phi); ok {
						walk(q)
						continue
					}
					if b, isC := constBool(e); isC && !b {
						from := p.Block().Preds[i]
						// is 'from' reached only via hasDeadline == false ?
						for _, gg := range guardsOf(from) {
							if ex, ok := gg.v.(*ssa.Extract); ok && ex.Index == 1 && !gg.pos {
								if call, ok := ex.Tuple.(*ssa.Call); ok && calleeName(call) == "invoke (context.Context).Deadline" {
									cleared = true
								}
							}
						}
						// or the edge itself is the false edge of the hasDeadline test
						if i2 := ifOf(from); i2 != nil {
							v, pol := unNot(i2.Cond, true)
							if ex, ok := v.(*ssa.Extract); ok && ex.Index == 1 {
								if call, ok := ex.Tuple.(*ssa.Call); ok && calleeName(call) == "invoke (context.Context).Deadline" {
									fs := from.Succs[1]
									if !pol {
										fs = from.Succs[0]
									}
									if fs == p.Block() {
										cleared = true
									}
								}
							}
						}
					}
				}
			}
			walk(p)
		}
		c.check(rule, "batch deadline only when every consumer has one", wd.Pos(), cleared, "WithDeadline is guarded by a flag cleared when a consumer's ctx has no deadline", "a deadline is imposed on the shared scan although some coalesced consumer may have none: that query fails with 'deadline exceeded' only because of its neighbours")
		// g2: the deadline is a maximum
		okMax := false
		if p, ok := root(wd.Common().Args[1]).(*ssa.Phi); ok {
			okMax = true
			seen := map[*ssa.Phi]bool{}
			var walk func(p *ssa.Phi)
			walk = func(p *ssa.Phi) {
				if seen[p] {
					return
				}
				seen[p] = true
				for i, e := range p.Edges {
					if q, ok := e.(*ssa.Phi); ok {
						walk(q)
						continue
					}
					if _, isConst := e.(*ssa.Const); isConst {
						continue
					}
					ex, isEx := e.(*ssa.Extract)
					if !isEx || ex.Index != 0 {
						okMax = false
						continue
					}
					// incoming deadline must arrive under deadline.After(current)==true
					from := p.Block().Preds[i]
					found := false
					for _, g := range guardsOf(from) {
						if call, ok := g.v.(*ssa.Call); ok && g.pos && isCall(call, "(time.Time).After") && call.Call.Args[0] == ssa.Value(ex) {
							found = true
						}
					}
					if i2 := ifOf(from); i2 != nil && !found {
						if call, ok := i2.Cond.(*ssa.Call); ok && isCall(call, "(time.Time).After") && call.Call.Args[0] == ssa.Value(ex) && from.Succs[0] == p.Block() {
							found = true
						}
					}
					if !found {
						okMax = false
					}
				}
			}
			walk(p)
		}
		c.check(rule, "batch deadline is the maximum of the consumers' deadlines", wd.Pos(), okMax, "a consumer's deadline replaces the current one only under deadline.After(current)", "the deadline imposed on the shared scan is not the maximum of the consumers' deadlines: a query with a later deadline is cut off at an earlier one")
	}
}

// ruleC17h: every consumer of a shared scan is offered every row, and gets its
// own error or the scan's — never a neighbour's.
func ruleC17h(c *Ctx, rule string) {
	c.describe(rule, "pathstate: (1) in the shared row callback of doProcessIterations every pass of the loop over the remaining iterations calls that iteration's onValue — an iteration is never skipped for a row while it remains in the list (a skipped consumer does not vote 'more', so the shared scan can end while it still wants rows); (2) in the final delivery loop the value sent on an iteration's errCh is that iteration's own err or the scan's result — not a variable carried from one loop pass to the next that took a previous iteration's error")
	dp := c.need(rule, "(*z.DB).doProcessIterations")
	if dp == nil {
		return
	}
	// (1)
	var cb *ssa.Function
	for _, a := range withHelpers(c.P, dp) {
		if a == dp {
			continue
		}
		for _, call := range calls(a) {
			if !call.Common().IsInvoke() && call.Common().StaticCallee() == nil && isFieldLoad(call.Common().Value, "z.iteration.onValue") {
				cb = a
			}
		}
	}
	if cb == nil {
		c.undecided(rule, "shared row callback", dp.Pos(), "no closure/helper calling iteration.onValue found")
	} else {
		c.touch(cb)
		var onv ssa.CallInstruction
		for _, call := range calls(cb) {
			if call.Common().StaticCallee() == nil && isFieldLoad(call.Common().Value, "z.iteration.onValue") {
				onv = call
			}
		}
		l := innermostLoopOuter(cb, onv.Block())
		if l == nil {
			c.undecided(rule, "every remaining iteration is offered every row", cb.Pos(), "the onValue call is not inside a loop over the iterations")
		} else {
			ok := true
			badPath := ""
			for _, s := range l.header.Succs {
				if !l.body[s] {
					continue
				}
				_, complete := pathsToFrom(l.header, s, l.header, func(p pathAtoms) bool {
					for _, pb := range p.blocks[:len(p.blocks)-1] {
						if pb == onv.Block() {
							return true
						}
					}
					ok = false
					var bs []string
					for _, pb := range p.blocks {
						bs = append(bs, "b"+itoa(pb.Index))
					}
					badPath = strings.Join(bs, ">")
					return false
				})
				if !complete && ok {
					ok = false
					badPath = "path enumeration incomplete"
				}
			}
			c.check(rule, "every remaining iteration is offered every row", onv.Pos(), ok, "each pass of the loop over the remaining iterations reaches it.onValue", "a pass of the loop over the remaining iterations can skip it.onValue ("+badPath+"): that consumer neither gets the row nor votes to continue, so the shared scan can stop while it still wants rows")
		}
	}
	// (1b) the shared callback asks for more rows iff ANY remaining iteration does
	if cb != nil {
		okOr, nRet := true, 0
		for _, in := range instrs(cb) {
			r, isR := in.(*ssa.Return)
			if !isR || len(r.Results) != 2 {
				continue
			}
			nRet++
			for _, leaf := range phiLeaves(r.Results[0]) {
				if _, isC := constBool(leaf); !isC {
					okOr = false
				}
			}
		}
		c.check(rule, "the shared scan continues while any iteration wants more", cb.Pos(), okOr && nRet > 0, "'more' starts false and is only ever set to true", "the 'more' result of the shared row callback takes the answer of one particular iteration (whichever the loop over the map visits last) instead of accumulating 'true' from any of them: the shared scan stops as soon as that one query has enough, and the others silently miss rows")
	}
	// (2)
	n := 0
	for _, in := range instrs(dp) {
		snd, ok := in.(*ssa.Send)
		if !ok || !isFieldLoad(snd.Chan, "z.iteration.errCh") {
			continue
		}
		n++
		l := innermostLoop(dp, snd.Block())
		bad := false
		seen := map[ssa.Value]bool{}
		var walk func(v ssa.Value)
		walk = func(v ssa.Value) {
			if seen[v] {
				return
			}
			seen[v] = true
			if ph, isPhi := v.(*ssa.Phi); isPhi {
				if l != nil && ph.Block() == l.header {
					// a value carried around the delivery loop: must not take an iteration's err
					for _, e := range ph.Edges {
						if dependsOn(e, func(x ssa.Value) bool { return isFieldLoad(x, "z.iteration.err") }) {
							bad = true
						}
					}
				}
				for _, e := range ph.Edges {
					walk(e)
				}
			}
		}
		walk(snd.X)
		c.check(rule, "an iteration receives its own error or the scan's", snd.Pos(), !bad, "the value sent is it.err of this iteration or the scan result", "the error delivered to an iteration comes from a variable that an earlier iteration's error was stored into: one query's failure (its deadline, its callback) is reported to the queries that arrived after it in the group")
	}
	c.floor(rule, "sends on iteration.errCh", n, 1)
}
