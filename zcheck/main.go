// zcheck decides structural clauses of the zenodb properties C01..C20 by static
// analysis of /repo's current working tree (go/packages + go/ssa + call graph).
// Nothing of the analysed program is executed.
package main

import (
	"flag"
	"fmt"
	"os"
	"runtime/debug"
	"sort"
	"strconv"
	"strings"
	"time"
)

// PropSpec describes one property's check.
type PropSpec struct {
	ID          string
	Explanation string   // decided clause (goes to evidence.coverage.explanation)
	NotDecided  []string // what the static rules do not decide
	Assumptions []string
	Rules       []func(c *Ctx)
}

var registry = map[string]*PropSpec{}

func register(p *PropSpec) { registry[p.ID] = p }

func main() {
	prop := flag.String("p", "", "property id (C01..C20) or 'all'")
	tier := flag.String("tier", "quick", "quick|thorough")
	repo := flag.String("repo", "/repo", "repository root to analyse")
	verif := flag.String("verif", "/verif", "directory for evidence/, replay/, known_findings.json")
	only := flag.String("only", "", "evaluate only obligations whose rule (or rule/instance prefix) matches")
	cgm := flag.String("cg", "vta", "call graph mode: vta|cha")
	replay := flag.String("replay", "", "replay file written by a previous run")
	list := flag.Bool("list", false, "list properties")
	genm := flag.String("genmanifest", "", "write MANIFEST.json to this path and exit")
	gens := flag.String("gensymbols", "", "write the symbol fingerprints of -repo (used for rename tolerance) to this path and exit")
	flag.Parse()
	verifDirFlag = *verif
	if *gens != "" {
		disableAliases = true
		P, err := load(*repo, *cgm, nil)
		if err != nil {
			fmt.Println("ERROR:", err)
			os.Exit(2)
		}
		if err := writeSymbols(*gens, snapshot(P.SSA, P.AllFns)); err != nil {
			fmt.Println("ERROR:", err)
			os.Exit(2)
		}
		fmt.Println("wrote", *gens)
		return
	}
	if *genm != "" {
		genManifest(*genm)
		return
	}
	if *list {
		var ids []string
		for id := range registry {
			ids = append(ids, id)
		}
		sort.Strings(ids)
		fmt.Println(strings.Join(ids, " "))
		return
	}
	if t := os.Getenv("VERIF_TIER"); t != "" && !flagSet("tier") {
		*tier = t
	}
	if *replay != "" {
		b, err := os.ReadFile(*replay)
		if err != nil {
			fmt.Println("ERROR:", err)
			os.Exit(2)
		}
		for _, l := range strings.Split(string(b), "\n") {
			if strings.HasPrefix(l, "property=") {
				*prop = strings.TrimPrefix(l, "property=")
			}
			if strings.HasPrefix(l, "rule=") {
				*only = strings.TrimPrefix(l, "rule=")
			}
		}
	}
	seed := 0
	if s := os.Getenv("VERIF_SEED"); s != "" {
		seed, _ = strconv.Atoi(s)
	}
	if *prop == "all" || strings.Contains(*prop, ",") {
		// developer mode: one load, several properties (used by the refactor and seed harnesses)
		var ids []string
		if *prop == "all" {
			for id := range registry {
				ids = append(ids, id)
			}
		} else {
			ids = strings.Split(*prop, ",")
		}
		sort.Strings(ids)
		P, err := load(*repo, *cgm, nil)
		if err != nil {
			fmt.Printf("ERROR: cannot load %s: %v\n", *repo, err)
			os.Exit(1)
		}
		verifDirFlag = *verif
		worst := 0
		for _, id := range ids {
			sp := registry[id]
			if sp == nil {
				fmt.Printf("ERROR: unknown property %q\n", id)
				os.Exit(2)
			}
			st := time.Now()
			c := newCtx(P, id, "quick")
			c.Only = *only
			if err := c.loadKnown(*verif + "/known_findings.json"); err != nil {
				fmt.Printf("ERROR: known_findings.json: %v\n", err)
				os.Exit(2)
			}
			for _, r := range sp.Rules {
				runRule(c, r)
			}
			if code := c.finish(*verif, st, seed, sp, map[string]interface{}{}); code > worst {
				worst = code
			}
		}
		os.Exit(worst)
	}
	spec := registry[*prop]
	if spec == nil {
		fmt.Printf("ERROR: unknown property %q\n", *prop)
		os.Exit(2)
	}
	start := time.Now()
	P, err := load(*repo, *cgm, nil)
	if err != nil {
		fmt.Printf("ERROR: cannot load %s: %v\n", *repo, err)
		fmt.Printf("VIOLATION property=%s replay=%s\n", *prop, "load-failure")
		os.Exit(1)
	}
	verifDirFlag = *verif
	c := newCtx(P, *prop, *tier)
	c.Only = *only
	if err := c.loadKnown(*verif + "/known_findings.json"); err != nil {
		fmt.Printf("ERROR: known_findings.json: %v\n", err)
		os.Exit(2)
	}
	for _, r := range spec.Rules {
		runRule(c, r)
	}
	extra := map[string]interface{}{}
	if *tier == "thorough" {
		thorough(c, spec, *repo, extra)
	}
	code := c.finish(*verif, start, seed, spec, extra)
	os.Exit(code)
}

func flagSet(name string) bool {
	set := false
	flag.Visit(func(f *flag.Flag) {
		if f.Name == name {
			set = true
		}
	})
	return set
}

// runRule runs one rule; a panic inside a rule is a failure of the check (never
// a silent pass).
func runRule(c *Ctx, r func(c *Ctx)) {
	defer func() {
		if e := recover(); e != nil {
			c.add("internal", fmt.Sprintf("panic in rule: %v", e), 0, UNDECIDED, string(debug.Stack()))
		}
	}()
	r(c)
}
