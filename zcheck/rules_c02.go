package main

import (
	"go/token"
	"strings"

	"golang.org/x/tools/go/ssa"
)

// C02 — crash recovery applies every acknowledged insert exactly once.

// errTestedFatal: the error result of call is nil-tested and its non-nil edge
// reaches a call to one of the fatal callees (or a return of it).
// isFatalCall: a call that does not return by contract: the DB's Panic hook
// (DBOpts.Panic, "an optional function for triggering panics"; default panics).
func isFatalCall(in ssa.Instruction) bool {
	if _, ok := in.(*ssa.Panic); ok {
		return true
	}
	call, ok := in.(ssa.CallInstruction)
	if !ok {
		return false
	}
	if call.Common().StaticCallee() == nil && !call.Common().IsInvoke() && dynName(call.Common().Value) == "field z.DB.Panic" {
		return true
	}
	return false
}

// reachNonFatal: blocks reachable from 'from' where control does not continue
// past a fatal call.
func reachNonFatal(from *ssa.BasicBlock) (blockSet, bool) {
	seen := blockSet{}
	sawFatal := false
	var stack = []*ssa.BasicBlock{from}
	seen[from] = true
	for len(stack) > 0 {
		b := stack[len(stack)-1]
		stack = stack[:len(stack)-1]
		fatal := false
		for _, in := range b.Instrs {
			if isFatalCall(in) {
				fatal = true
			}
		}
		if fatal {
			sawFatal = true
			continue
		}
		for _, s := range b.Succs {
			if !seen[s] {
				seen[s] = true
				stack = append(stack, s)
			}
		}
	}
	return seen, sawFatal
}

func errCheckedBefore(call *ssa.Call, next ssa.Instruction, fatal ...string) (bool, string) {
	e, _ := errValueOf(call)
	if e == nil {
		return false, "its error is dropped"
	}
	fn := call.Parent()
	for _, ci := range findIfs(fn, func(v ssa.Value) bool {
		x, _, ok := nilTest(atom{v, true})
		return ok && sameValue(x, e)
	}) {
		_, nn, _ := nilTest(atom{ci.v, true})
		// successor on which e is non-nil
		bad := ci.succFor(nn)
		good := ci.succFor(!nn)
		// next must be reachable only via the nil side
		badReach, sawFatal := reachNonFatal(bad)
		if badReach[next.Block()] {
			// the fatal call may share next's block only if it precedes... not the case for distinct steps
			return false, "the failing outcome can still reach the next step"
		}
		if !reach([]*ssa.BasicBlock{good}, nil, nil)[next.Block()] && good != next.Block() {
			continue
		}
		// the failing side must do something fatal / return the error
		okFatal := sawFatal
		for b := range badReach {
			for _, in := range b.Instrs {
				if cl, ok := in.(ssa.CallInstruction); ok && isCall(cl, fatal...) {
					okFatal = true
				}
				if r, ok := in.(*ssa.Return); ok {
					for _, rv := range r.Results {
						if isErrorType(rv.Type()) && !isNilConst(rv) {
							okFatal = true
						}
					}
				}
				if _, ok := in.(*ssa.Panic); ok {
					okFatal = true
				}
			}
		}
		if okFatal {
			return true, ""
		}
		return false, "the failing outcome neither panics nor returns an error"
	}
	return false, "its error is not tested before the next step"
}

func ruleC02a(c *Ctx, rule string) {
	c.describe(rule, "dom (must-pass-through): durable before visible — in doProcessFlush every path from fs.flush to os.Rename of the new file passes out.Sync() and out.Close(), each error tested and fatal; in writeOffsets Sync → Close → Rename with each error returned")
	for _, spec := range []struct{ fn, first string }{
		{"(*z.rowStore).doProcessFlush", "(*z.fileStore).flush"},
		{"(*z.rowStore).writeOffsets", "(*z.table).writeOffsets"},
	} {
		fn := c.need(rule, spec.fn)
		if fn == nil {
			continue
		}
		first := callsTo(fn, spec.first)
		ren := callsTo(fn, "os.Rename")
		syn := callsTo(fn, "(*os.File).Sync")
		cls := []ssa.CallInstruction{}
		for _, cl := range callsTo(fn, "(*os.File).Close") {
			if _, isCall_ := cl.(*ssa.Call); isCall_ {
				cls = append(cls, cl)
			}
		}
		if len(first) != 1 || len(ren) != 1 {
			c.undecided(rule, spec.fn+": write/rename anchors", fn.Pos(), "expected one "+spec.first+" call and one os.Rename call")
			continue
		}
		okSync := len(syn) > 0 && mustPassBetween(first[0], ren[0], asInstrs(syn))
		c.check(rule, spec.fn+": Sync between write and rename", ren[0].Pos(), okSync, "every path from the write to os.Rename passes (*os.File).Sync", "the new file can be renamed into place without having been fsynced: after a crash the directory entry may point to a file whose contents are not on disk, while the memstore/WAL position it replaces is gone")
		if okSync {
			ok, why := errCheckedBefore(syn[0].(*ssa.Call), ren[0], "(*z.DB).Panic")
			c.check(rule, spec.fn+": Sync error is fatal", syn[0].Pos(), ok, "a failed Sync cannot reach the rename", "Sync() can fail and the file is renamed into place anyway: "+why)
		}
		okClose := len(cls) > 0 && mustPassBetween(first[0], ren[0], asInstrs(cls))
		c.check(rule, spec.fn+": Close between write and rename", ren[0].Pos(), okClose, "every path from the write to os.Rename passes an explicit Close", "the file is renamed before it is closed (buffered data / close errors are lost)")
		if okClose {
			ok, why := errCheckedBefore(cls[0].(*ssa.Call), ren[0], "(*z.DB).Panic")
			c.check(rule, spec.fn+": Close error is fatal", cls[0].Pos(), ok, "a failed Close cannot reach the rename", "Close() can fail and the file is renamed into place anyway: "+why)
		}
		// order Sync before Close
		if okSync && okClose {
			c.check(rule, spec.fn+": Sync precedes Close", syn[0].Pos(), instrDominates(syn[0], cls[0]), "Sync dominates Close", "Close happens before Sync")
		}
		// the rename's own error is handled
		if rc, ok := ren[0].(*ssa.Call); ok {
			e, _ := errValueOf(rc)
			handled := e != nil
			if handled {
				if r := errflowE2(c.P, e, &errflowCfg{sinkCalls: map[string]bool{}, sinkDynNames: map[string]bool{"field z.DB.Panic": true}}); !r.ok {
					handled = false
				}
			}
			c.check(rule, spec.fn+": rename error handled", rc.Pos(), handled, "a failed rename panics / is returned", "the error of os.Rename is dropped: the flush is treated as done although the new file is not in place")
		}
	}
}

func ruleC02b(c *Ctx, rule string) {
	c.describe(rule, "dom: install after rename — the stores to rs.fileStore and rs.memStore in doProcessFlush are dominated by the os.Rename call; the new memstore starts from ms.offsetsBySource of the flushed memstore; the new fileStore names the renamed file")
	fn := c.need(rule, "(*z.rowStore).doProcessFlush")
	if fn == nil {
		return
	}
	ren := callsTo(fn, "os.Rename")
	if len(ren) != 1 {
		c.undecided(rule, "doProcessFlush rename", fn.Pos(), "expected one os.Rename")
		return
	}
	for _, key := range []string{"z.rowStore.fileStore", "z.rowStore.memStore"} {
		for _, st := range fieldStores(fn, key) {
			c.check(rule, "doProcessFlush: "+key+" installed after rename", st.Pos(), instrDominates(ren[0], st), "dominated by os.Rename", "the new store is made visible before the file is renamed into place")
		}
	}
	// new memstore from flushed memstore's offsets
	nm := callsTo(fn, "(*z.rowStore).newMemStore")
	c.floor(rule, "newMemStore call in doProcessFlush", len(nm), 1)
	var msP *ssa.Parameter
	for _, p := range fn.Params {
		if typeStr(p.Type()) == "*z.memstore" {
			msP = p
		}
	}
	for _, call := range nm {
		a := call.Common().Args[1]
		b, f, ok := fieldOf(strip(a))
		okA := ok && f != nil && fieldKey(b.Type(), f) == "z.memstore.offsetsBySource" && msP != nil && root(b) == ssa.Value(msP)
		c.check(rule, "doProcessFlush: new memstore continues from the flushed offsets", call.Pos(), okA, "newMemStore(ms.offsetsBySource) of the memstore being flushed", "the memstore installed after a flush does not start from the offsets of the flushed memstore: the next flush writes a header that does not cover (or over-covers) the file's contents")
	}
	// the file store installed names the renamed target
	for _, st := range fieldStores(fn, "z.rowStore.fileStore") {
		okN := false
		if al, isAlloc := root(st.Val).(*ssa.Alloc); isAlloc {
			for _, in := range instrs(fn) {
				if s2, ok := in.(*ssa.Store); ok {
					if fa, ok := s2.Addr.(*ssa.FieldAddr); ok && fa.X == ssa.Value(al) {
						if f := fieldVar(fa.X.Type(), fa.Field); f != nil && f.Name() == "filename" && sameValue(s2.Val, ren[0].Common().Args[1]) {
							okN = true
						}
					}
				}
			}
		}
		c.check(rule, "doProcessFlush: installed fileStore names the renamed file", st.Pos(), okN, "fileStore.filename is the rename target", "the installed fileStore does not point at the file that was just renamed into place")
	}
}

func ruleC02c(c *Ctx, rule string) {
	c.describe(rule, "reg (who-writes): entries of memstore.offsetsBySource are written, and Tree.Update is called on a memstore tree, only in (*rowStore).processInserts")
	var mu, up []string
	for _, fn := range c.P.ModFns {
		for _, in := range instrs(fn) {
			if m, ok := in.(*ssa.MapUpdate); ok && isFieldLoad(m.Map, "z.memstore.offsetsBySource") {
				mu = append(mu, stableName(fn))
			}
			if call, ok := in.(*ssa.Call); ok && isCall(call, "(*z/bytetree.Tree).Update") && isFieldLoad(call.Call.Args[0], "z.memstore.tree") {
				up = append(up, stableName(fn))
			}
		}
	}
	pi := c.P.Func("(*z.rowStore).processInserts")
	ap, _ := ingestApplier(c.P)
	home := ap != nil && pi != nil && privateHelperOf(c.P, ap, pi)
	allIn := func(xs []string) bool {
		for _, x := range xs {
			if ap == nil || x != stableName(ap) {
				return false
			}
		}
		return len(xs) > 0
	}
	okM := home && len(mu) == 1 && allIn(mu)
	okU := home && allIn(up) // how often it is applied there is C01.a's business
	c.check(rule, "only processInserts records memstore offsets", token.NoPos, okM, "single writer (processInserts or its private helper)", "memstore.offsetsBySource entries are written in: "+joinS(mu)+" — offsets and rows can get out of step")
	c.check(rule, "only processInserts updates the memstore tree", token.NoPos, okU, "single writer (processInserts or its private helper)", "the memstore tree is updated in: "+joinS(up))
}

func joinS(s []string) string {
	out := ""
	for i, x := range s {
		if i > 0 {
			out += ", "
		}
		out += x
	}
	if out == "" {
		return "(nowhere)"
	}
	return out
}

func ruleC02e(c *Ctx, rule string) {
	c.describe(rule, "dom: the offset-only persistence (rs.writeOffsets) happens only when nothing is buffered — guarded by ms.tree.Length() == 0 (forms == 0, < 1, <= 0)")
	pi := c.need(rule, "(*z.rowStore).processInserts")
	if pi == nil {
		return
	}
	n := 0
	for _, f := range withAnon(pi) {
		for _, call := range callsTo(f, "(*z.rowStore).writeOffsets") {
			n++
			ok := false
			for _, g := range guardsOf(call.Block()) {
				b, isB := g.v.(*ssa.BinOp)
				if !isB {
					continue
				}
				isLen := isCallValue(b.X, "(*z/bytetree.Tree).Length")
				k, isK := constInt(b.Y)
				if !isLen || !isK {
					continue
				}
				switch {
				case b.Op == token.EQL && k == 0 && g.pos, b.Op == token.NEQ && k == 0 && !g.pos,
					b.Op == token.LSS && k == 1 && g.pos, b.Op == token.LEQ && k == 0 && g.pos,
					b.Op == token.GTR && k == 0 && !g.pos, b.Op == token.GEQ && k == 1 && !g.pos:
					ok = true
				}
			}
			c.check(rule, "offset-only write requires an empty memstore", call.Pos(), ok, "guarded by ms.tree.Length() == 0", "rs.writeOffsets can run while rows are buffered in the memstore: the persisted offset then claims WAL entries whose rows exist only in memory — a crash before the next flush loses them")
		}
	}
	c.floor(rule, "writeOffsets call sites in processInserts", n, 1)
}

func ruleC02f(c *Ctx, rule string) {
	c.describe(rule, "flow: resume wiring — CreateTable starts WAL processing / following from the offsets openRowStore returned (through LimitAge only); openRowStore returns Advance(file-header offsets, offset-file offsets) and opens the file store on the same file whose header it read; startWALProcessing passes its offset to (*wal.WAL).NewReader")
	ct := c.need(rule, "(*z.DB).CreateTable")
	if ct != nil {
		fromOpen := func(v ssa.Value) bool {
			// v derives from result 1 of openRowStore via LimitAge / phis / index
			seen := map[ssa.Value]bool{}
			var walk func(v ssa.Value) bool
			walk = func(v ssa.Value) bool {
				v = strip(v)
				if seen[v] {
					return true
				}
				seen[v] = true
				switch x := v.(type) {
				case *ssa.Phi:
					any := false
					for _, e := range x.Edges {
						if isNilConst(e) {
							continue
						}
						if !walk(e) {
							return false
						}
						any = true
					}
					return any
				case *ssa.Call:
					if isCall(x, "(z/common.OffsetsBySource).LimitAge") {
						return walk(x.Call.Args[0])
					}
					return false
				case *ssa.Extract:
					if call, ok := x.Tuple.(*ssa.Call); ok && isCall(call, "(*z.table).openRowStore") && x.Index == 1 {
						return true
					}
					return false
				case *ssa.Lookup:
					return walk(x.X)
				case *ssa.UnOp:
					if x.Op == token.MUL {
						if al, ok := x.X.(*ssa.Alloc); ok {
							sts := cellStores(ct, al)
							if len(sts) == 0 {
								return false
							}
							for _, st := range sts {
								if !walk(st.Val) {
									return false
								}
							}
							return true
						}
					}
				}
				return false
			}
			return walk(v)
		}
		n := 0
		for _, name := range []string{"(*z.table).startWALProcessing", "(*z.table).startFollowing"} {
			for _, call := range callsTo(ct, name) {
				n++
				c.check(rule, "CreateTable: "+name+" resumes from the row store's offsets", call.Pos(), fromOpen(call.Common().Args[1]), "argument derives from openRowStore's offsets through LimitAge only", "ingestion is (re)started from offsets that are not the ones recovered from the row store: acknowledged inserts are skipped or replayed after a restart")
			}
		}
		c.floor(rule, "start calls in CreateTable", n, 2)
	}
	or := c.need(rule, "(*z.table).openRowStore")
	if or != nil {
		// the returned offsets
		okAdv := false
		var pos token.Pos = or.Pos()
		for _, call := range callsTo(or, "(z/common.OffsetsBySource).Advance") {
			pos = call.Pos()
			recvFile := isResultOfCall(call.Common().Args[0], 0, "(*z.table).readWALOffsets")
			argOff := dependsOn(call.Common().Args[1], func(v ssa.Value) bool {
				return isResultOfCall(v, 0, "(*z.table).readOffsets")
			})
			// result must reach the return and the processInserts goroutine
			reachesRet := false
			for _, in := range instrs(or) {
				if r, ok := in.(*ssa.Return); ok && len(r.Results) == 3 {
					if dependsOn(r.Results[1], func(v ssa.Value) bool { return v == call.(ssa.Value) }) {
						reachesRet = true
					}
				}
			}
			if recvFile && argOff && reachesRet {
				okAdv = true
			}
		}
		c.check(rule, "openRowStore: resume offsets = Advance(file header, offset file)", pos, okAdv, "the returned offsets are fileHeaderOffsets.Advance(offsetFileOffsets)", "the offsets returned by openRowStore are not the per-source maximum of the data file's header and the offset file: a stale offset file can win over the newest data file (replay → double count) or newer skipped offsets are lost")
		// same file for header and fileStore
		okFile := false
		for _, call := range callsTo(or, "(*z.table).readWALOffsets") {
			nameArg := call.Common().Args[1]
			for _, in := range instrs(or) {
				if st, ok := in.(*ssa.Store); ok {
					if fa, ok := st.Addr.(*ssa.FieldAddr); ok {
						if f := fieldVar(fa.X.Type(), fa.Field); f != nil && fieldKey(fa.X.Type(), f) == "z.fileStore.filename" {
							if dependsOn(st.Val, func(v ssa.Value) bool { return v == nameArg }) || sameValue(st.Val, nameArg) || sharePhi(st.Val, nameArg) {
								okFile = true
							}
						}
					}
				}
			}
		}
		c.check(rule, "openRowStore: file store opened on the file whose header was read", or.Pos(), okFile, "fileStore.filename and the readWALOffsets argument are the same value", "the file store is opened on a different file than the one whose header offsets are used")
	}
	sw := c.need(rule, "(*z.table).startWALProcessing")
	if sw != nil {
		ok := false
		for _, call := range callsTo(sw, "(*github.com/getlantern/wal.WAL).NewReader") {
			if len(call.Common().Args) > 2 && len(sw.Params) > 1 && call.Common().Args[2] == ssa.Value(sw.Params[1]) {
				ok = true
			}
		}
		c.check(rule, "startWALProcessing: reader starts at the given offset", sw.Pos(), ok, "the offset parameter is NewReader's offset argument", "the WAL reader is not positioned at the recovered offset")
	}
}

// sharePhi: a and b are phis (or loads) over the same variable, i.e. a is an
// incoming value of b or vice versa, or both derive from one phi.
func sharePhi(a, b ssa.Value) bool {
	a, b = strip(a), strip(b)
	if a == b {
		return true
	}
	in := func(x, y ssa.Value) bool {
		p, ok := y.(*ssa.Phi)
		if !ok {
			return false
		}
		for _, e := range p.Edges {
			if e == x {
				return true
			}
		}
		return false
	}
	return in(a, b) || in(b, a)
}

// ruleC02i: only complete files ever appear in a table's directory.
func ruleC02i(c *Ctx, rule string) {
	c.describe(rule, "reg: the row store creates or opens files for writing only outside the table directory; files enter rowStoreOptions.dir exclusively through os.Rename of a synced, closed file — openRowStore trusts the lexicographically last data file in that directory")
	n := 0
	for _, fn := range c.P.ModFns {
		if pkgOf(fn) != "z" {
			continue
		}
		for _, call := range calls(fn) {
			cn := calleeName(call)
			var pathArg ssa.Value
			switch cn {
			case "io/ioutil.TempFile", "os.CreateTemp":
				pathArg = call.Common().Args[0]
			case "os.Create":
				pathArg = call.Common().Args[0]
			case "os.OpenFile":
				if fl, ok := constInt(call.Common().Args[1]); ok && fl&(0x1|0x2|0x40|0x200|0x400) == 0 {
					continue // read-only
				}
				pathArg = call.Common().Args[0]
			case "io/ioutil.WriteFile", "os.WriteFile":
				pathArg = call.Common().Args[0]
			default:
				continue
			}
			top := fn
			for top.Parent() != nil {
				top = top.Parent()
			}
			if top.Signature.Recv() == nil || !hasPrefixAny(typeStr(top.Signature.Recv().Type()), "*z.rowStore", "*z.fileStore") {
				continue
			}
			n++
			c.touch(fn)
			inDir := dependsOn(pathArg, func(v ssa.Value) bool {
				return isFieldLoad(v, "z.rowStoreOptions.dir") || isFieldLoad(v, "z.fileStore.filename")
			})
			c.check(rule, stableName(fn)+" creates "+cn+" outside the table directory", call.Pos(), !inDir, "the path does not derive from rowStoreOptions.dir / fileStore.filename", "a file is created for writing inside the table directory: a crash before it is complete leaves a partial file that openRowStore may pick as the newest data file (or that shadows the real one)")
		}
	}
	c.floor(rule, "file-creating calls in the row store", n, 2)
}

func init() {
	register(&PropSpec{
		ID:          "C02",
		Explanation: "Decides the ordering and pairing obligations of the flush/offset protocol: (a) fsync and close, each checked, before the rename that makes a file visible; (b) new stores installed only after the rename, the new memstore continuing from the flushed offsets; (c) offsets and rows have a single writer and are applied in one critical section; (d) the header offsets written with a file are those of the memstore flushed into it; (e) an offset-only write happens only with an empty memstore; (f) restart resumes from Advance(file header, offset file) recovered from the same file the file store serves. Added clauses: temp files are created outside the table directory; follower-side per-table dedup (= C12.a); one row store insert per WAL entry. Further clauses: the standalone source tag of the WAL read loop is the key CreateTable resumes from; only the database-wide task truncates or compresses a WAL.",
		NotDecided:  []string{"behaviour at actual crash points and fsync semantics of the OS/filesystem", "the WAL library itself", "multi-round crash histories", "one WAL entry with array values becomes several memstore inserts carrying the same offset (reading note)"},
		Assumptions: []string{"os.Rename is atomic on one filesystem", "sync.RWMutex semantics"},
		Rules: []func(*Ctx){func(c *Ctx) { ruleC02a(c, "C02.a") }, func(c *Ctx) { ruleC02b(c, "C02.b") }, func(c *Ctx) { ruleC02c(c, "C02.c") }, func(c *Ctx) {
			c.describe("C02.k", "dom: a WAL entry (one offset) becomes exactly one row store insert — (*table).doInsert calls rowStore.insert once, outside any loop, so that the offset and all values of the point are applied in one lock region (see C01.a) and no flush can persist the offset with part of the point")
			ruleOneInsertPerPoint(c, "C02.k")
		}, func(c *Ctx) { ruleC02l(c, "C02.l") }, func(c *Ctx) { ruleC02m(c, "C02.m") }, func(c *Ctx) { ruleC02n(c, "C02.n") }, func(c *Ctx) {
			c.describe("C02.d", "flow: header offsets belong to the flushed rows (see C03.d)")
			ruleC03d(c, "C02.d")
		}, func(c *Ctx) { ruleC02e(c, "C02.e") }, func(c *Ctx) { ruleC02f(c, "C02.f") }, func(c *Ctx) { ruleLockRegions(c, "C02.g") }, func(c *Ctx) {
			c.describe("C02.h", "dom: a rejected entry still advances the offset (t.skip)")
			ruleSkipOnReject(c, "C02.h")
		}, func(c *Ctx) { ruleC02i(c, "C02.i") }, func(c *Ctx) { ruleC12a(c, "C02.j") }},
	})
}

// ruleC02l: the key under which a standalone table records its WAL position is
// the key it resumes from.
func ruleC02l(c *Ctx, rule string) {
	c.describe(rule, "reg: writer/reader agreement of the standalone source key — the WAL read loop tags every entry with a constant source (walRead{…, source}) and CreateTable resumes the WAL reader from offsetsBySource[that same constant]; any other key finds no offset and the whole WAL is applied again on every restart")
	pw := c.need(rule, "(*z.table).processWALInserts")
	ct := c.need(rule, "(*z.DB).CreateTable")
	if pw == nil || ct == nil {
		return
	}
	tag, okT := int64(-1), false
	for _, f := range withHelpers(c.P, pw) {
		for _, st := range fieldStores(f, "z.walRead.source") {
			if k, isK := constInt(st.Val); isK {
				tag, okT = k, true
			} else {
				okT = false
			}
		}
	}
	var key ssa.Value
	n := 0
	for _, f := range withHelpers(c.P, ct) {
		for _, call := range callsTo(f, "(*z.table).startWALProcessing") {
			n++
			a := call.Common().Args
			v := strip(a[len(a)-1])
			if lk, ok := v.(*ssa.Lookup); ok && typeStr(lk.X.Type()) == "z/common.OffsetsBySource" {
				key = lk.Index
			}
		}
	}
	if !okT || n != 1 {
		c.undecided(rule, "standalone resume key = standalone source tag", ct.Pos(), "expected a constant source tag in processWALInserts and one startWALProcessing call in CreateTable (found tag ok="+boolStr(okT)+", calls="+itoa(n)+")")
		return
	}
	k, isK := int64(0), false
	if key != nil {
		k, isK = constInt(key)
	}
	c.check(rule, "standalone resume key = standalone source tag", ct.Pos(), isK && k == tag, "both are the constant "+itoa(int(tag)), "CreateTable resumes the WAL reader from offsetsBySource[k] with k different from (or not provably equal to) the constant source the WAL read loop tags entries with: no offset is found, the reader restarts at the oldest segment and every restart applies the whole WAL on top of the persisted rows")
}

func boolStr(b bool) string {
	if b {
		return "true"
	}
	return "false"
}

// ruleC02m: only the database-wide retention task shortens a WAL.
func ruleC02m(c *Ctx, rule string) {
	c.describe(rule, "reg (who-may-call): the shared per-stream WAL is truncated or compressed only by the database-wide task (*DB).capWALAge — a table that truncates the WAL up to its own persisted offset removes entries a sibling table on the same stream still holds only in memory")
	allowed := map[string]string{"(*z.DB).capWALAge": "database-wide size cap"}
	n := 0
	for _, fn := range c.P.ModFns {
		if strings.HasPrefix(pkgOf(fn), "z/cmd") {
			continue
		}
		for _, call := range calls(fn) {
			cn := calleeName(call)
			if !strings.HasPrefix(cn, "(*github.com/getlantern/wal.WAL).Truncate") && !strings.HasPrefix(cn, "(*github.com/getlantern/wal.WAL).Compress") {
				continue
			}
			n++
			top := stableName(topOf(fn))
			_, ok := allowed[top]
			c.touch(fn)
			c.check(rule, top+" calls "+strings.TrimPrefix(cn, "(*github.com/getlantern/wal.WAL)."), call.Pos(), ok, "reviewed caller", "the WAL of a stream is shortened outside the database-wide retention task: entries that another table on the stream has acknowledged but not yet flushed are gone after the next kill")
		}
	}
	c.floor(rule, "WAL truncation/compression calls", n, 1)
}

// ruleC02n: no backfill limit means no limit.
func ruleC02n(c *Ctx, rule string) {
	c.describe(rule, "dom: (*table).backfillTo returns the zero time when TableOpts.Backfill is 0 (not configured) — CreateTable limits the persisted resume offsets by LimitAge(backfillTo()); reading the unset option as 'backfill nothing' replaces every persisted offset by 'now', so acknowledged inserts that were only in the memstore at a kill are never replayed")
	bf := c.need(rule, "(*z.table).backfillTo")
	if bf == nil {
		return
	}
	ok := false
	for _, ci := range findIfs(bf, func(v ssa.Value) bool {
		b, isB := v.(*ssa.BinOp)
		if !isB || (b.Op != token.EQL && b.Op != token.NEQ && b.Op != token.LEQ && b.Op != token.GTR) {
			return false
		}
		k, isK := constInt(b.Y)
		return isK && k == 0 && isFieldLoad(b.X, "z.TableOpts.Backfill")
	}) {
		b := ci.v.(*ssa.BinOp)
		zeroSide := b.Op == token.EQL || b.Op == token.LEQ
		s := ci.succFor(zeroSide)
		onlyZero := true
		for bb := range reach([]*ssa.BasicBlock{s}, nil, nil) {
			if len(bb.Instrs) == 0 {
				continue
			}
			if r, isR := bb.Instrs[len(bb.Instrs)-1].(*ssa.Return); isR && !isZeroTime(r.Results[0]) {
				onlyZero = false
			}
		}
		if onlyZero && !reach([]*ssa.BasicBlock{s}, nil, nil)[ci.succFor(!zeroSide)] {
			ok = true
		}
	}
	c.check(rule, "backfillTo: an unset Backfill imposes no limit", bf.Pos(), ok, "Backfill == 0 returns time.Time{}", "backfillTo does not return the zero time for Backfill == 0: the default (no backfill limit) is treated as 'backfill zero long', every restart resumes the WAL at 'now' and unflushed acknowledged inserts are lost")
}
