package main

import (
	"go/token"

	"golang.org/x/tools/go/ssa"
)

// lock engine: must-hold dataflow for one mutex field (gen at Lock/RLock, kill
// at Unlock/RUnlock, meet = intersection). State per block entry: 0 = not
// held, 1 = read-held, 2 = write-held, -1 = unknown (conflict).

type lockState int

const (
	lkNone lockState = iota
	lkRead
	lkWrite
	lkConflict
)

// lockRegions computes, for every instruction of fn, the state of the mutex
// identified by field key (e.g. "z.rowStore.mx") just before it executes.
// Each acquisition gets an id so that "same region" can be tested.
type lockInfo struct {
	state map[ssa.Instruction]lockState
	acq   map[ssa.Instruction]ssa.Instruction // the Lock/RLock call that opened the region
}

func lockRegions(fn *ssa.Function, key string) *lockInfo {
	li := &lockInfo{state: map[ssa.Instruction]lockState{}, acq: map[ssa.Instruction]ssa.Instruction{}}
	type st struct {
		s   lockState
		acq ssa.Instruction
	}
	in := map[*ssa.BasicBlock]st{}
	have := map[*ssa.BasicBlock]bool{}
	if len(fn.Blocks) == 0 {
		return li
	}
	in[fn.Blocks[0]] = st{lkNone, nil}
	have[fn.Blocks[0]] = true
	work := []*ssa.BasicBlock{fn.Blocks[0]}
	isMx := func(call ssa.CallInstruction) (string, bool) {
		cn := calleeName(call)
		var op string
		switch cn {
		case "(*sync.RWMutex).Lock", "(*sync.Mutex).Lock":
			op = "Lock"
		case "(*sync.RWMutex).Unlock", "(*sync.Mutex).Unlock":
			op = "Unlock"
		case "(*sync.RWMutex).RLock":
			op = "RLock"
		case "(*sync.RWMutex).RUnlock":
			op = "RUnlock"
		default:
			return "", false
		}
		a := call.Common().Args
		if len(a) == 0 {
			return "", false
		}
		if fa, ok := a[0].(*ssa.FieldAddr); ok {
			f := fieldVar(fa.X.Type(), fa.Field)
			if f != nil && fieldKey(fa.X.Type(), f) == key {
				return op, true
			}
		}
		return "", false
	}
	for len(work) > 0 {
		b := work[0]
		work = work[1:]
		cur := in[b]
		for _, ins := range b.Instrs {
			li.state[ins] = cur.s
			li.acq[ins] = cur.acq
			if call, ok := ins.(*ssa.Call); ok {
				if op, is := isMx(call); is {
					switch op {
					case "Lock":
						cur = st{lkWrite, ins}
					case "RLock":
						cur = st{lkRead, ins}
					case "Unlock", "RUnlock":
						cur = st{lkNone, nil}
					}
				}
			}
		}
		for _, s := range b.Succs {
			if !have[s] {
				have[s] = true
				in[s] = cur
				work = append(work, s)
			} else if in[s] != cur {
				old := in[s]
				if old.s != lkConflict {
					in[s] = st{lkConflict, nil}
					work = append(work, s)
				}
			}
		}
	}
	return li
}

func (li *lockInfo) sameRegion(a, b ssa.Instruction, want lockState) bool {
	return li.state[a] == want && li.state[b] == want && li.acq[a] != nil && li.acq[a] == li.acq[b]
}

// ruleLockRegions: C03.e / C18.b / C02.b / C02.c lock-region obligations.
func ruleLockRegions(c *Ctx, rule string) {
	c.describe(rule, "lock (must-hold dataflow for rowStore.mx): rowStore.iterate reads rs.fileStore and takes rs.memStore.copy() in one read-held region; doProcessFlush installs the new fileStore and memStore in one write-held region; processInserts applies the offset and the tree update of an insert in one write-held region")
	// iterate: load of rs.fileStore and call memStore.copy in the same read-held region
	if it := c.need(rule, "(*z.rowStore).iterate"); it != nil {
		li := lockRegions(it, "z.rowStore.mx")
		var fsLoad, cp ssa.Instruction
		for _, in := range instrs(it) {
			if u, ok := in.(*ssa.UnOp); ok && u.Op == token.MUL && isFieldLoad(u, "z.rowStore.fileStore") {
				fsLoad = in
			}
			if call, ok := in.(*ssa.Call); ok && isCall(call, "(*z.memstore).copy") {
				cp = in
			}
		}
		if fsLoad == nil || cp == nil {
			c.undecided(rule, "rowStore.iterate snapshot", it.Pos(), "load of rs.fileStore or call of memStore.copy() not found")
		} else {
			ok := (li.sameRegion(fsLoad, cp, lkRead) || li.sameRegion(fsLoad, cp, lkWrite))
			c.check(rule, "rowStore.iterate captures fileStore and memstore copy atomically", cp.Pos(), ok, "both happen in one held region of rs.mx", "rs.fileStore is read and rs.memStore.copy() is taken in different (or no) critical sections of rs.mx: a flush can swap the stores in between and the query sees the flushed rows twice or not at all")
		}
	}
	// doProcessFlush: stores to rs.fileStore and rs.memStore in one write-held region
	if fl := c.need(rule, "(*z.rowStore).doProcessFlush"); fl != nil {
		li := lockRegions(fl, "z.rowStore.mx")
		a := fieldStores(fl, "z.rowStore.fileStore")
		b := fieldStores(fl, "z.rowStore.memStore")
		if len(a) != 1 || len(b) != 1 {
			c.undecided(rule, "doProcessFlush store swap", fl.Pos(), "expected exactly one store to rs.fileStore and one to rs.memStore")
		} else {
			c.check(rule, "doProcessFlush swaps fileStore and memStore atomically", a[0].Pos(), li.sameRegion(a[0], b[0], lkWrite), "both stores happen in one write-held region of rs.mx", "the new file store and the new (empty) memstore are not installed in one write-held region: a concurrent query can pair the new file with the old memstore (double count) or the old file with the new memstore (loss)")
		}
	}
	// ingest: offset map update and tree.Update in one write-held region (in
	// processInserts itself or in the private helper that applies an insert)
	if pi := c.need(rule, "(*z.rowStore).processInserts"); pi != nil {
		ap, _ := ingestApplier(c.P)
		if ap == nil || !privateHelperOf(c.P, ap, pi) {
			c.undecided(rule, "processInserts offset/row atomicity", pi.Pos(), "the function applying inserts to the memstore is not processInserts or a private helper of it")
			return
		}
		li := lockRegions(ap, "z.rowStore.mx")
		var mu, up ssa.Instruction
		for _, in := range instrs(ap) {
			if m, ok := in.(*ssa.MapUpdate); ok && isFieldLoad(m.Map, "z.memstore.offsetsBySource") {
				mu = in
			}
			if call, ok := in.(*ssa.Call); ok && isCall(call, "(*z/bytetree.Tree).Update") {
				up = in
			}
		}
		if mu == nil || up == nil {
			c.undecided(rule, "processInserts offset/row atomicity", pi.Pos(), "offset map update or tree.Update not found")
		} else {
			ok := li.sameRegion(mu, up, lkWrite)
			if !ok && ap != pi && li.state[mu] == lkNone && li.state[up] == lkNone {
				// the helper does not lock itself: its (single) call site must be inside a write-held region
				cs := callSitesOf(c.P, ap)
				if len(cs) == 1 {
					lp := lockRegions(cs[0].Parent(), "z.rowStore.mx")
					ok = lp.state[cs[0]] == lkWrite
				}
			}
			c.check(rule, "processInserts applies offset and row in one critical section", up.Pos(), ok, "ms.offsetsBySource[source]=offset and ms.tree.Update are in one write-held region", "the WAL offset and the row update of one insert are not applied in one write-held region of rs.mx: a snapshot/flush in between records the offset without the row (lost point after restart) or the row without the offset (double count)")
		}
	}
}
