package main

import (
	"go/token"
	"go/types"
	"strings"

	"golang.org/x/tools/go/ssa"
)

// C03 — results independent of flush timing / data location.

// callbackParams: func-typed parameters of fn with a row-callback signature.
func callbackParams(fn *ssa.Function) []*ssa.Parameter {
	var out []*ssa.Parameter
	for _, p := range fn.Params {
		if sig, ok := p.Type().Underlying().(*types.Signature); ok && isRowCallbackSig(sig) && sig.Results().Len() >= 2 {
			out = append(out, p)
		}
	}
	return out
}

// isCallOfParam: call is a dynamic call of parameter p (directly, or through a
// cell / free variable initialised from it).
func isCallOfParam(call ssa.CallInstruction, p *ssa.Parameter) bool {
	cc := call.Common()
	if cc.IsInvoke() || cc.StaticCallee() != nil {
		return false
	}
	v := root(cc.Value)
	if v == ssa.Value(p) {
		return true
	}
	// load of a cell whose stores are all p
	if u, ok := strip(cc.Value).(*ssa.UnOp); ok && u.Op == token.MUL {
		sts := cellStores(call.Parent(), cellRoot(u.X))
		if len(sts) > 0 {
			all := true
			for _, st := range sts {
				if st.Val != ssa.Value(p) {
					all = false
				}
			}
			return all
		}
	}
	return false
}

// scanContinuation applies rule C03.a to fn: in the outermost loop that calls
// the row callback, every feasible path from the loop header to a return
// either calls the callback, returns a provably non-nil error, or passes an
// exhaustion atom.
func scanContinuation(c *Ctx, rule string, fn *ssa.Function, exhaustion func(a atom) bool, what string) {
	c.touch(fn)
	inst := stableName(fn)
	var cbp *ssa.Parameter
	var cbCalls []ssa.CallInstruction
	for _, p := range callbackParams(fn) {
		for _, call := range calls(fn) {
			if isCallOfParam(call, p) {
				cbp = p
				cbCalls = append(cbCalls, call)
			}
		}
	}
	if cbp == nil {
		c.undecided(rule, inst, fn.Pos(), "no row-callback parameter is called in this function")
		return
	}
	var outer *loopInfo
	for _, call := range cbCalls {
		if l := innermostLoopOuter(fn, call.Block()); l != nil && (outer == nil || len(l.body) > len(outer.body)) {
			outer = l
		}
	}
	if outer == nil {
		c.undecided(rule, inst, fn.Pos(), "the row callback is not called inside a loop")
		return
	}
	cbBlocks := blockSet{}
	for _, call := range cbCalls {
		cbBlocks[call.Block()] = true
	}
	H := outer.header
	nPaths := 0
	var bad []string
	complete := true
	for _, b := range fn.Blocks {
		if len(b.Instrs) == 0 {
			continue
		}
		ret, ok := b.Instrs[len(b.Instrs)-1].(*ssa.Return)
		if !ok {
			continue
		}
		var errOp ssa.Value
		for _, rv := range ret.Results {
			if isErrorType(rv.Type()) {
				errOp = rv
			}
		}
		_, okc := pathsTo(H, b, func(p pathAtoms) bool {
			nPaths++
			for _, pb := range p.blocks {
				if cbBlocks[pb] {
					return true
				}
			}
			if p.has(exhaustion) {
				return true
			}
			// range loop header exit as first step
			if isRangeHeader(H) && len(p.blocks) > 1 && p.blocks[1] == H.Succs[1] {
				return true
			}
			if errOp != nil {
				if known, isNil := p.knownNil(errOp); known && !isNil {
					return true
				}
				if provablyNonNilErr(p.resolve(errOp), b) {
					return true
				}
			}
			if len(bad) < 3 {
				var bs []string
				for _, pb := range p.blocks {
					bs = append(bs, "b"+itoa(pb.Index))
				}
				bad = append(bad, "return at "+c.P.Pos(ret.Pos())+" via "+strings.Join(bs, ">"))
			}
			return true
		})
		if !okc {
			complete = false
		}
	}
	if !complete {
		c.undecided(rule, inst, fn.Pos(), "path enumeration exceeded its cap")
		return
	}
	if len(bad) > 0 {
		c.bad(rule, inst, H.Instrs[0].Pos(), "the "+what+" can end with a possibly-nil error on a path from the loop header that neither calls the row callback nor reaches the end of the data: the scan stops by itself and the remaining rows are silently missing", bad...)
		return
	}
	c.ok(rule, inst, H.Instrs[0].Pos(), "all "+itoa(nPaths)+" feasible header-to-return paths call the row callback, return a non-nil error, or pass the end-of-data test")
}

func ruleC03a(c *Ctx, rule string) {
	c.describe(rule, "pathstate (acyclic path enumeration with phi environment and nil facts): in the row loops of (*fileStore).iterate, (*bytetree.Tree).Walk and every other module function that calls a row-callback parameter inside a loop, a return whose error may be nil is reached from the loop header only after the row callback was called or the data was exhausted (the scan may end early only because the consumer asked)")
	isEOF := func(a atom) bool {
		b, ok := a.v.(*ssa.BinOp)
		if !ok || (b.Op != token.EQL && b.Op != token.NEQ) {
			return false
		}
		eq := b.Op == token.EQL
		if !a.pos {
			eq = !eq
		}
		return eq && (globalName(b.X) == "io.EOF" || globalName(b.Y) == "io.EOF")
	}
	isEmptyLen := func(a atom) bool {
		b, ok := a.v.(*ssa.BinOp)
		if !ok {
			return false
		}
		isLen := func(v ssa.Value) bool {
			call, ok := v.(*ssa.Call)
			return ok && isCall(call, "builtin len")
		}
		// normalise to  len(x) OP k  holding on this edge
		op, x, y := b.Op, b.X, b.Y
		if isLen(y) && !isLen(x) {
			x, y = y, x
			switch op {
			case token.LSS:
				op = token.GTR
			case token.GTR:
				op = token.LSS
			case token.LEQ:
				op = token.GEQ
			case token.GEQ:
				op = token.LEQ
			}
		}
		k, isK := constInt(y)
		if !isLen(x) || !isK {
			return false
		}
		if !a.pos {
			switch op {
			case token.EQL:
				op = token.NEQ
			case token.NEQ:
				op = token.EQL
			case token.LSS:
				op = token.GEQ
			case token.GEQ:
				op = token.LSS
			case token.GTR:
				op = token.LEQ
			case token.LEQ:
				op = token.GTR
			}
		}
		// the edge establishes len(x) == 0
		return (op == token.EQL && k == 0) || (op == token.LEQ && k == 0) || (op == token.LSS && k == 1)
	}
	n := 0
	if fn := c.need(rule, "(*z.fileStore).iterate"); fn != nil {
		n++
		scanContinuation(c, rule, fn, isEOF, "file scan")
	}
	if fn := c.need(rule, "(*z/bytetree.Tree).Walk"); fn != nil {
		n++
		scanContinuation(c, rule, fn, isEmptyLen, "tree walk")
	}
	// every other function with a loop around a row-callback parameter
	for _, fn := range c.P.ModFns {
		nm := stableName(fn)
		if nm == "(*z.fileStore).iterate" || nm == "(*z/bytetree.Tree).Walk" || strings.HasPrefix(pkgOf(fn), "z/cmd") || strings.HasPrefix(pkgOf(fn), "z/testsupport") {
			continue
		}
		has := false
		for _, p := range callbackParams(fn) {
			for _, call := range calls(fn) {
				if l := innermostLoopOuter(fn, call.Block()); isCallOfParam(call, p) && l != nil && isRangeHeader(l.header) {
					has = true // data-driven (range) loops; message loops end by protocol (see C13.d)
				}
			}
		}
		if !has {
			continue
		}
		n++
		scanContinuation(c, rule, fn, func(a atom) bool { return isEOF(a) || isEmptyLen(a) }, "row loop")
	}
	c.floor(rule, "row loops around a callback parameter", n, 3)
}

// ruleC03b: raw pass-through agreement between fileStore.iterate and its consumers.
func ruleC03b(c *Ctx, rule string) {
	c.describe(rule, "dom/pathstate: (producer) fileStore.iterate passes raw bytes with nil columns only when the memstore had nothing for the key and rawOkay holds, and rawOkay is and-ed with fileFields.Equals(outFields); (consumer) doWrite, the only consumer that enables rawOkay, uses 'columns' only on paths where raw == nil")
	it := c.need(rule, "(*z.fileStore).iterate")
	if it != nil {
		// the callback call with a nil columns argument
		n := 0
		for _, p := range callbackParams(it) {
			for _, call := range calls(it) {
				if !isCallOfParam(call, p) || len(call.Common().Args) != 3 || !isNilConst(call.Common().Args[1]) {
					continue
				}
				n++
				var gMS, gRaw bool
				for _, g := range guardsOf(call.Block()) {
					if x, nn, ok := nilTest(g); ok && !nn {
						// msColumns == nil : value derived from Tree.Remove
						if dependsOn(x, func(v ssa.Value) bool {
							cl, ok := v.(*ssa.Call)
							return ok && isCall(cl, "(*z/bytetree.Tree).Remove")
						}) {
							gMS = true
						}
					}
					if g.pos {
						// rawOkay: a bool that depends on Fields.Equals and on the rawOkay parameter
						depEq := dependsOn(g.v, func(v ssa.Value) bool {
							cl, ok := v.(*ssa.Call)
							return ok && isCall(cl, "(z/core.Fields).Equals")
						})
						isRawParam := func(v ssa.Value) bool {
							p, ok := v.(*ssa.Parameter)
							return ok && len(it.Params) > 4 && p == it.Params[4]
						}
						depParam := dependsOn(g.v, isRawParam)
						if ph, isPhi := g.v.(*ssa.Phi); isPhi && !depParam {
							// rawOkay = rawOkay && X lowers to phi[false from the param's false edge, X]
							for i, e := range ph.Edges {
								if cb, isC := constBool(e); isC && !cb {
									if i2 := ifOf(ph.Block().Preds[i]); i2 != nil && isRawParam(i2.Cond) {
										depParam = true
									}
								}
							}
						}
						if depEq && depParam {
							gRaw = true
						}
					}
				}
				c.check(rule, "fileStore.iterate raw pass-through only for untouched rows", call.Pos(), gMS, "guarded by msColumns == nil (result of ms.tree.Remove)", "a file row can be passed through raw although the memstore holds columns for its key: the pending memstore data for that key is lost from the result/flush")
				c.check(rule, "fileStore.iterate raw pass-through only with identical field layout", call.Pos(), gRaw, "guarded by rawOkay && fileFields.Equals(outFields)", "a file row can be passed through raw although the file's field layout differs from the requested one (or the caller did not allow raw)")
			}
		}
		c.floor(rule, "raw pass-through call sites", n, 1)
	}
	// buffer reuse: rows handed to a consumer that retains them (the sorting writer) must not share the read buffer
	if fl := c.need(rule, "(*z.fileStore).flush"); fl != nil {
		var sortP *ssa.Parameter
		for _, p := range fl.Params {
			if p.Name() == "shouldSort" {
				sortP = p
			}
		}
		if sortP == nil && len(fl.Params) >= 2 {
			sortP = fl.Params[len(fl.Params)-2]
		}
		n := 0
		for _, f := range withHelpers(c.P, fl) {
			for _, call := range callsTo(f, "(*z.fileStore).iterate") {
				n++
				a := call.Common().Args
				ok := false
				if len(a) >= 4 {
					if x, isNot := notOf(c.P, a[3], fl); isNot {
						ok = x == ssa.Value(sortP)
					}
					if cb, isC := constBool(resolveVal(c.P, a[3], fl)); isC && !cb {
						ok = true // never reusing is always safe
					}
				}
				c.check(rule, "flush: the read buffer is reused only when rows are not retained", call.Pos(), ok, "okayToReuseBuffer = !shouldSort (the sorting writer keeps every row until Close)", "fs.iterate may reuse its read buffer although the flush is sorted: the external-sort writer retains the row slices, so later rows overwrite earlier queued ones")
			}
		}
		c.floor(rule, "fs.iterate call in flush (buffer reuse)", n, 1)
	}
	dw := c.need(rule, "(*z.fileStore).doWrite")
	if dw != nil {
		var colP, rawP *ssa.Parameter
		for _, p := range dw.Params {
			if isSeqContainer(p.Type()) {
				colP = p
			}
			if p.Name() == "raw" && isByteSlice(p.Type()) {
				rawP = p
			}
		}
		if rawP == nil {
			for i := len(dw.Params) - 1; i >= 0; i-- {
				if isByteSlice(dw.Params[i].Type()) && typeStr(dw.Params[i].Type()) == "[]byte" {
					rawP = dw.Params[i]
					break
				}
			}
		}
		if colP == nil || rawP == nil {
			c.undecided(rule, "(*z.fileStore).doWrite: columns used only when raw == nil", dw.Pos(), "columns/raw parameters not found")
			return
		}
		okAll := true
		nUse := 0
		var where token.Pos
		for _, ref := range *colP.Referrers() {
			in, ok := ref.(ssa.Instruction)
			if !ok || in.Block() == nil {
				continue
			}
			if _, isDbg := ref.(*ssa.DebugRef); isDbg {
				continue
			}
			nUse++
			dom := false
			for _, g := range guardsOf(in.Block()) {
				if x, nn, ok := nilTest(g); ok && !nn && strip(x) == ssa.Value(rawP) {
					dom = true
				}
			}
			if !dom {
				okAll = false
				where = in.Pos()
			}
		}
		if where == token.NoPos {
			where = dw.Pos()
		}
		c.check(rule, "(*z.fileStore).doWrite: columns used only when raw == nil", where, okAll && nUse > 0, "every use of columns lies on paths where raw == nil was established (raw rows are written through)", "doWrite can treat 'columns' as the row although raw != nil (fileStore.iterate passes nil columns with raw bytes): the row is written without its data or dropped as expired — e.g. every untouched file row on a sorted flush")
	}
}

func ruleC03c(c *Ctx, rule string) {
	c.describe(rule, "flow: in fileStore.iterate the removal context passed to ms.tree.Remove and to ms.tree.Walk is the same non-constant value (ctx 0 disables removal marks, so keys present in file and memstore would be emitted twice)")
	it := c.need(rule, "(*z.fileStore).iterate")
	if it == nil {
		return
	}
	var rm, wk []ssa.CallInstruction
	for _, f := range withAnon(it) {
		rm = append(rm, callsTo(f, "(*z/bytetree.Tree).Remove")...)
		wk = append(wk, callsTo(f, "(*z/bytetree.Tree).Walk")...)
	}
	if len(rm) == 0 || len(wk) == 0 {
		c.undecided(rule, "fileStore.iterate removal context", it.Pos(), "Tree.Remove or Tree.Walk call not found")
		return
	}
	ok := true
	for _, r := range rm {
		for _, w := range wk {
			a, b := r.Common().Args[1], w.Common().Args[1]
			if _, isC := constInt(a); isC {
				ok = false
			}
			if !sameValue(a, b) {
				ok = false
			}
		}
	}
	c.check(rule, "fileStore.iterate: one non-zero removal context", rm[0].Pos(), ok, "Remove(ctx, …) and Walk(ctx, …) receive the same non-constant ctx", "the memstore keys merged into file rows are not marked removed under the same context the final memstore walk uses (or the context is a constant): rows present in both stores are emitted twice")
	// Walk itself must honour the marks
	if w := c.need(rule, "(*z/bytetree.Tree).Walk"); w != nil {
		has := len(callsTo(w, "(*z/bytetree.node).wasRemovedFor")) > 0
		c.check(rule, "Tree.Walk skips nodes removed for the context", w.Pos(), has, "calls wasRemovedFor before invoking the callback", "Tree.Walk no longer consults wasRemovedFor")
	}
}

func ruleC03d(c *Ctx, rule string) {
	c.describe(rule, "flow: fileStore.flush iterates the file together with the memstore it was given (argument 2 of fs.iterate is the memstore parameter), and doProcessFlush passes the memstore being flushed together with its own offsets")
	fl := c.need(rule, "(*z.fileStore).flush")
	if fl == nil {
		return
	}
	var msP *ssa.Parameter
	for _, p := range fl.Params {
		if typeStr(p.Type()) == "*z.memstore" {
			msP = p
		}
	}
	n := 0
	for _, f := range withHelpers(c.P, fl) {
		for _, call := range callsTo(f, "(*z.fileStore).iterate") {
			n++
			a := call.Common().Args
			ok := msP != nil && len(a) > 2 && (root(a[2]) == ssa.Value(msP) || resolveVal(c.P, a[2], fl) == ssa.Value(msP))
			c.check(rule, "flush merges the memstore", call.Pos(), ok, "fs.iterate receives flush's memstore parameter", "flush iterates the file without the memstore it is flushing (nil or another value): the flushed file lacks the buffered rows while the memstore is discarded")
		}
	}
	c.floor(rule, "fs.iterate call in flush", n, 1)
	dpf := c.need(rule, "(*z.rowStore).doProcessFlush")
	if dpf != nil {
		for _, call := range callsTo(dpf, "(*z.fileStore).flush") {
			a := call.Common().Args
			// args: recv, out, fields, filter, offsetsBySource, ms, shouldSort, disallowRaw
			ok := false
			if len(a) >= 6 {
				if b, f, isF := fieldOf(strip(a[4])); isF && f != nil && fieldKey(b.Type(), f) == "z.memstore.offsetsBySource" && sameValue(b, a[5]) {
					ok = true
				}
			}
			c.check(rule, "flush header offsets belong to the flushed memstore", call.Pos(), ok, "offsets argument is ms.offsetsBySource of the memstore argument", "the offsets written into the new file's header are not those of the memstore being flushed: after a restart the WAL is replayed from a position that does not match the file's contents (loss or double count)")
		}
	}
}

func init() {
	register(&PropSpec{
		ID:          "C03",
		Explanation: "Decides the structural clauses of the merge-on-read/flush plumbing: (a) a scan never stops by itself (path rule over every row loop), (b) raw pass-through happens only for untouched rows with identical layout and its consumer honours it, (c) each key present in both stores is emitted once (one removal context), (d) a flush writes file ∪ memstore with the memstore's own offsets, (e) file store and memstore are swapped and snapshotted atomically (lock regions). Added clauses: the read buffer is reused by a flush only when rows are not retained (!shouldSort); the ALTER path (= C15.c). Further clauses: queue-driven tree traversals enqueue the children of every node they pop; a forced flush completes only after the flush call.",
		NotDecided:  []string{"Sequence.Merge arithmetic for gaps/overlaps/leads (values)", "which periods the 10th (truncating) flush removes", "crash-point behaviour (see C02); the clean-restart resume wiring is decided (C03.f)"},
		Assumptions: []string{"io.EOF from binary.Read means end of the file's rows", "sync.RWMutex semantics"},
		Rules:       []func(*Ctx){func(c *Ctx) { ruleC03h(c, "C03.h") }, func(c *Ctx) { ruleC03i(c, "C03.i") }, func(c *Ctx) { ruleC03a(c, "C03.a") }, func(c *Ctx) { ruleC03b(c, "C03.b") }, func(c *Ctx) { ruleC03c(c, "C03.c") }, func(c *Ctx) { ruleC03d(c, "C03.d") }, func(c *Ctx) { ruleLockRegions(c, "C03.e") }, func(c *Ctx) { ruleC02f(c, "C03.f") }, func(c *Ctx) { ruleC15c(c, "C03.g") }},
	})
}

// ruleC03h: a queue-driven tree traversal visits the children of every node it
// pops, whatever it decides about the node's own data.
func ruleC03h(c *Ctx, rule string) {
	c.describe(rule, "pathstate: in (*bytetree.Tree).Walk and Copy every iteration of the node-queue loop that continues reaches the inner loop that enqueues the node's children — a node whose own row is skipped (already removed for this context, or without data) still has descendants that must be visited; skipping them loses the memstore-only keys below a key that is also on disk")
	for _, name := range []string{"(*z/bytetree.Tree).Walk", "(*z/bytetree.Tree).Copy"} {
		fn := c.need(rule, name)
		if fn == nil {
			continue
		}
		// outer loop: the largest loop; inner: a range loop inside it whose body appends to a []*node
		var outer *loopInfo
		for _, l := range loopsOf(fn) {
			l := l
			if outer == nil || len(l.body) > len(outer.body) {
				outer = &l
			}
		}
		if outer == nil {
			c.undecided(rule, name+": children are enqueued on every iteration", fn.Pos(), "no loop found")
			continue
		}
		var inner *loopInfo
		for _, l := range loopsOf(fn) {
			l := l
			if l.header == outer.header || !outer.body[l.header] {
				continue
			}
			for b := range l.body {
				for _, in := range b.Instrs {
					if call, ok := in.(*ssa.Call); ok && isCall(call, "builtin append") && typeStr(call.Call.Args[0].Type()) == "[]*z/bytetree.node" {
						inner = &l
					}
				}
			}
		}
		if inner == nil {
			c.undecided(rule, name+": children are enqueued on every iteration", fn.Pos(), "no inner loop appending to the node queue found")
			continue
		}
		ok := true
		badPath := ""
		// every path body-entry -> outer header (a completed iteration) passes the inner loop's header
		for _, s := range outer.header.Succs {
			if !outer.body[s] {
				continue
			}
			_, complete := pathsToFrom(outer.header, s, outer.header, func(p pathAtoms) bool {
				for _, pb := range p.blocks[:len(p.blocks)-1] {
					if pb == inner.header {
						return true
					}
				}
				ok = false
				var bs []string
				for _, pb := range p.blocks {
					bs = append(bs, "b"+itoa(pb.Index))
				}
				badPath = strings.Join(bs, ">")
				return false
			})
			if !complete && ok {
				ok = false
				badPath = "path enumeration incomplete"
			}
		}
		c.check(rule, name+": children are enqueued on every iteration", outer.header.Instrs[0].Pos(), ok, "every continuing iteration passes the loop over n.edges", "an iteration can go on to the next queued node without enqueuing this node's children ("+badPath+"): the subtree below a skipped node is never visited")
	}
}

// ruleC03i: a forced flush flushes.
func ruleC03i(c *Ctx, rule string) {
	c.describe(rule, "dom: in processInserts the completion of a forced flush (send on forceFlushCompletes) is dominated by a call of the flush closure made in the same select case — FlushAll / the memory-cap flush return only after the memstore was handed to the flush, never skipped on a time condition; otherwise what is on disk after FlushAll depends on the earlier flush schedule")
	pi := c.need(rule, "(*z.rowStore).processInserts")
	if pi == nil {
		return
	}
	n := 0
	for _, f := range withHelpers(c.P, pi) {
		for _, in := range instrs(f) {
			snd, ok := in.(*ssa.Send)
			if !ok || !isFieldLoad(snd.Chan, "z.rowStore.forceFlushCompletes") {
				continue
			}
			n++
			dom := false
			for _, call := range calls(f) {
				cv := call.Common().Value
				isFlush := false
				if mc, isMC := cv.(*ssa.MakeClosure); isMC {
					if cl, isF := mc.Fn.(*ssa.Function); isF && len(callsToDeep(cl, "(*z.rowStore).processFlush")) > 0 {
						isFlush = true
					}
				}
				if u, isU := cv.(*ssa.UnOp); isU {
					for _, st := range cellStores(f, cellRoot(u.X)) {
						if mc, isMC := st.Val.(*ssa.MakeClosure); isMC {
							if cl, isF := mc.Fn.(*ssa.Function); isF && len(callsToDeep(cl, "(*z.rowStore).processFlush")) > 0 {
								isFlush = true
							}
						}
					}
				}
				if g := call.Common().StaticCallee(); g != nil && len(callsToDeep(g, "(*z.rowStore).processFlush")) > 0 {
					isFlush = true
				}
				if isFlush && instrDominates(call.(ssa.Instruction), snd) && sameSelectCase(f, call.(ssa.Instruction), snd) {
					dom = true
				}
			}
			c.check(rule, "a forced flush completes only after flushing", snd.Pos(), dom, "flush(true) dominates forceFlushCompletes <- true in the same select case", "the forced-flush completion can be signalled on a path that did not call the flush (e.g. skipped because the last flush was recent): FlushAll returns with the memstore unflushed, so disk-only queries and restarts see a state that depends on the earlier flush schedule")
		}
	}
	c.floor(rule, "sends on forceFlushCompletes", n, 1)
}

// sameSelectCase: no select instruction lies between a and b (a dominates b).
func sameSelectCase(fn *ssa.Function, a, b ssa.Instruction) bool {
	for _, in := range instrs(fn) {
		if sel, ok := in.(*ssa.Select); ok {
			if instrDominates(a, sel) && instrDominates(sel, b) {
				return false
			}
		}
	}
	return true
}
