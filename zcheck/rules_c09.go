package main

import (
	"go/token"
	"go/types"
	"strings"

	"golang.org/x/tools/go/ssa"
)

// C09 — ORDER BY sorts by the full key list; LIMIT/OFFSET slice that order.

type rel int

const (
	relLT rel = 1 << iota
	relEQ
	relGT
	relAll = relLT | relEQ | relGT
)

func relString(r rel) string {
	var p []string
	if r&relLT != 0 {
		p = append(p, "<")
	}
	if r&relEQ != 0 {
		p = append(p, "=")
	}
	if r&relGT != 0 {
		p = append(p, ">")
	}
	return "{" + strings.Join(p, ",") + "}"
}

// refine returns the orderings of (A,B) compatible with "x op y == val" when
// x is on side sx ('A' or 'B') and y on the other side.
func refine(op token.Token, xIsA bool, val bool) rel {
	var r rel
	switch op {
	case token.LSS:
		r = relLT
	case token.LEQ:
		r = relLT | relEQ
	case token.GTR:
		r = relGT
	case token.GEQ:
		r = relGT | relEQ
	case token.EQL:
		r = relEQ
	case token.NEQ:
		r = relLT | relGT
	default:
		return relAll
	}
	if !val {
		r = relAll &^ r
	}
	if !xIsA {
		// relation was about (B,A): mirror
		var m rel
		if r&relLT != 0 {
			m |= relGT
		}
		if r&relGT != 0 {
			m |= relLT
		}
		if r&relEQ != 0 {
			m |= relEQ
		}
		r = m
	}
	return r
}

// cmpOutcome: one way a path can be taken — the orderings of (i-key, j-key) it is
// compatible with, and the direction it established (-1 unknown, 0 asc, 1 desc).
type cmpOutcome struct {
	r    rel
	desc int
}

// cmpTriple: a helper's path — its outcome and the sign of the int it returns
// (relLT = negative, relEQ = zero, relGT = positive).
type cmpTriple struct {
	cmpOutcome
	sign rel
}

func mirror(r rel) rel {
	var m rel
	if r&relLT != 0 {
		m |= relGT
	}
	if r&relGT != 0 {
		m |= relLT
	}
	return m | r&relEQ
}

// evalCmpAtoms folds the branch conditions of a path into outcomes. Comparisons
// between an i-side and a j-side value refine the ordering; a test of the
// Descending flag fixes the direction; the int result of core.compare — or of a
// module helper that is summarised path by path (cmpHelperSummary) — tested
// against 0 refines through the helper's own paths.
func evalCmpAtoms(c *Ctx, p pathAtoms, side func(pathAtoms, ssa.Value) byte, depth int) []cmpOutcome {
	outs := []cmpOutcome{{relAll, -1}}
	helperAllowed := map[*ssa.Call]rel{}
	var helperCalls []*ssa.Call
	for _, a := range p.atoms {
		if isFieldLoad(a.v, "z/core.OrderBy.Descending") || isFieldValue(a.v, "Descending") {
			for i := range outs {
				if a.pos {
					outs[i].desc = 1
				} else {
					outs[i].desc = 0
				}
			}
			continue
		}
		b, ok := a.v.(*ssa.BinOp)
		if !ok {
			continue
		}
		x, y := p.resolve(strip(b.X)), p.resolve(strip(b.Y))
		if call, isC := x.(*ssa.Call); isC {
			if k, isK := constInt(y); isK && k == 0 {
				if isCall(call, "z/core.compare") {
					cx, cy := p.resolve(strip(call.Call.Args[0])), p.resolve(strip(call.Call.Args[1]))
					sx, sy := side(p, cx), side(p, cy)
					if sx != 0 && sy != 0 && sx != sy {
						for i := range outs {
							outs[i].r &= refine(b.Op, sx == 'A', a.pos)
						}
					}
					continue
				}
				if h := call.Call.StaticCallee(); h != nil && inModule(h) && len(h.Blocks) > 0 && depth < 2 && typeStr(call.Type()) == "int" {
					// all tests of one call's result constrain the same helper path: intersect first
					if _, seen := helperAllowed[call]; !seen {
						helperAllowed[call] = relAll
						helperCalls = append(helperCalls, call)
					}
					helperAllowed[call] &= refine(b.Op, true, a.pos) // allowed signs of the result
					continue
				}
			}
		}
		sx, sy := side(p, x), side(p, y)
		if sx != 0 && sy != 0 && sx != sy {
			for i := range outs {
				outs[i].r &= refine(b.Op, sx == 'A', a.pos)
			}
		}
	}
	for _, call := range helperCalls {
		allowed := helperAllowed[call]
		var argSide []byte
		for _, av := range call.Call.Args {
			argSide = append(argSide, side(p, p.resolve(strip(av))))
		}
		var next []cmpOutcome
		for _, t := range cmpHelperSummary(c, call.Call.StaticCallee(), argSide, depth+1) {
			if t.sign&allowed == 0 {
				continue
			}
			for _, o := range outs {
				n := cmpOutcome{o.r & t.r, o.desc}
				if n.desc == -1 {
					n.desc = t.desc
				}
				next = append(next, n)
			}
		}
		outs = next
	}
	return outs
}

// cmpHelperSummary enumerates the entry-to-return paths of an int-valued helper
// whose arguments are on the given sides.
func cmpHelperSummary(c *Ctx, h *ssa.Function, argSide []byte, depth int) []cmpTriple {
	c.touch(h)
	side := func(pa pathAtoms, v ssa.Value) byte {
		var sa, sb bool
		for i, p := range h.Params {
			if i >= len(argSide) || argSide[i] == 0 {
				continue
			}
			p := p
			if dependsOnPath(pa, v, func(x ssa.Value) bool { return x == ssa.Value(p) }) {
				if argSide[i] == 'A' {
					sa = true
				} else {
					sb = true
				}
			}
		}
		switch {
		case sa && !sb:
			return 'A'
		case sb && !sa:
			return 'B'
		}
		return 0
	}
	var out []cmpTriple
	for _, b := range h.Blocks {
		if len(b.Instrs) == 0 {
			continue
		}
		ret, ok := b.Instrs[len(b.Instrs)-1].(*ssa.Return)
		if !ok || len(ret.Results) != 1 {
			continue
		}
		_, complete := pathsTo(h.Blocks[0], b, func(p pathAtoms) bool {
			outs := evalCmpAtoms(c, p, side, depth)
			rv := p.resolve(strip(ret.Results[0]))
			for _, o := range outs {
				if o.r == 0 {
					continue
				}
				if k, isK := constInt(rv); isK {
					sg := relEQ
					if k < 0 {
						sg = relLT
					} else if k > 0 {
						sg = relGT
					}
					out = append(out, cmpTriple{o, sg})
					continue
				}
				if call, isC := rv.(*ssa.Call); isC && isCall(call, "z/core.compare") {
					sx, sy := side(p, p.resolve(strip(call.Call.Args[0]))), side(p, p.resolve(strip(call.Call.Args[1])))
					if sx != 0 && sy != 0 && sx != sy {
						for _, sg := range []rel{relLT, relEQ, relGT} {
							rr := sg
							if sx == 'B' {
								rr = mirror(sg)
							}
							if o.r&rr != 0 {
								out = append(out, cmpTriple{cmpOutcome{o.r & rr, o.desc}, sg})
							}
						}
						continue
					}
				}
				out = append(out, cmpTriple{o, relAll})
			}
			return true
		})
		if !complete {
			out = append(out, cmpTriple{cmpOutcome{relAll, -1}, relAll})
		}
	}
	return out
}

func ruleC09a(c *Ctx, rule string) {
	c.describe(rule, "pathstate (ordering domain P({<,=,>}) over the two rows' key values, Descending flag, phi environment for the swap idiom): in orderedRows.Less, for every key branch, 'return true' is reached only when the i-row's key is strictly before the j-row's in the requested direction, 'return false' only when strictly after, and the next key is consulted only on equality; after the loop it returns false")
	fn := c.need(rule, "(z/core.orderedRows).Less")
	if fn == nil {
		return
	}
	if len(fn.Params) != 3 {
		c.undecided(rule, "Less parameters", fn.Pos(), "unexpected signature")
		return
	}
	pi, pj := fn.Params[1], fn.Params[2]
	side := func(p pathAtoms, v ssa.Value) byte {
		di := dependsOnPath(p, v, func(x ssa.Value) bool { return x == ssa.Value(pi) })
		dj := dependsOnPath(p, v, func(x ssa.Value) bool { return x == ssa.Value(pj) })
		switch {
		case di && !dj:
			return 'A'
		case dj && !di:
			return 'B'
		}
		return 0
	}
	var loop *loopInfo
	for _, l := range loopsOf(fn) {
		l := l
		if loop == nil || len(l.body) > len(loop.body) {
			loop = &l
		}
	}
	if loop == nil {
		c.undecided(rule, "Less key loop", fn.Pos(), "no loop over the ORDER BY keys")
		return
	}
	H := loop.header
	body := H.Succs[0]
	// evaluate one path: the set of (ordering, direction) outcomes compatible with it
	evalPath := func(p pathAtoms) []cmpOutcome {
		return evalCmpAtoms(c, p, side, 0)
	}
	type finding struct {
		what string
		r    rel
		desc int
		pos  token.Pos
	}
	var bad []string
	nPaths, nTrue, nFalse, nCont := 0, 0, 0, 0
	check := func(kind string, want func(desc int) rel, p pathAtoms, pos token.Pos) {
		nPaths++
		for _, o := range evalPath(p) {
			r, desc := o.r, o.desc
			if r == 0 {
				continue // infeasible combination of comparisons
			}
			w := want(desc)
			if r&^w != 0 {
				d := "asc"
				if desc == 1 {
					d = "desc"
				}
				if desc == -1 {
					d = "direction untested"
				}
				var bs []string
				for _, b := range p.blocks {
					bs = append(bs, "b"+itoa(b.Index))
				}
				bad = append(bad, kind+" ("+d+") reachable with i-key "+relString(r)+" j-key, allowed "+relString(w)+" at "+c.P.Pos(pos)+" via "+strings.Join(bs, ">"))
			}
		}
	}
	for _, b := range fn.Blocks {
		if len(b.Instrs) == 0 || !loop.body[b] && !reach([]*ssa.BasicBlock{body}, blockSet{H: true}, nil)[b] {
			continue
		}
		ret, ok := b.Instrs[len(b.Instrs)-1].(*ssa.Return)
		if !ok || len(ret.Results) != 1 {
			continue
		}
		// only returns reached from inside the loop body without passing the header again
		if !reach([]*ssa.BasicBlock{body}, blockSet{H: true}, nil)[b] {
			continue
		}
		val, isC := constBool(ret.Results[0])
		if !isC {
			bad = append(bad, "non-constant return inside the key loop at "+c.P.Pos(ret.Pos()))
			continue
		}
		pathsTo(body, b, func(p pathAtoms) bool {
			for _, pb := range p.blocks {
				if pb == H {
					return true
				}
			}
			if val {
				nTrue++
				check("return true", func(desc int) rel {
					if desc == 1 {
						return relGT
					}
					return relLT
				}, p, ret.Pos())
			} else {
				nFalse++
				check("return false", func(desc int) rel {
					if desc == 1 {
						return relLT
					}
					return relGT
				}, p, ret.Pos())
			}
			return true
		})
	}
	// continue paths: body entry -> latch (pred of H inside the loop)
	pathsTo(body, H, func(p pathAtoms) bool {
		nCont++
		last := p.blocks[len(p.blocks)-2]
		check("fall-through to the next key", func(int) rel { return relEQ }, p, last.Instrs[len(last.Instrs)-1].Pos())
		return true
	})
	// after the loop: return false
	afterOK := true
	for b := range reach([]*ssa.BasicBlock{H.Succs[1]}, nil, nil) {
		if len(b.Instrs) == 0 {
			continue
		}
		if ret, ok := b.Instrs[len(b.Instrs)-1].(*ssa.Return); ok {
			if v, isC := constBool(ret.Results[0]); !isC || v {
				afterOK = false
			}
		}
	}
	if len(bad) > 0 {
		c.bad(rule, "z/core.orderedRows.Less key comparison is a strict three-way decision", fn.Pos(), "the comparator does not decide every key completely: a later key can override an earlier one, or equal keys are ordered", bad...)
	} else if nTrue == 0 || nFalse == 0 || nCont == 0 {
		c.undecided(rule, "z/core.orderedRows.Less key comparison is a strict three-way decision", fn.Pos(), "no return-true/return-false/continue paths recognised ("+itoa(nTrue)+"/"+itoa(nFalse)+"/"+itoa(nCont)+")")
	} else {
		c.ok(rule, "z/core.orderedRows.Less key comparison is a strict three-way decision", fn.Pos(), itoa(nPaths)+" paths: return true only on strictly-before, return false only on strictly-after, next key only on equality ("+itoa(nTrue)+"/"+itoa(nFalse)+"/"+itoa(nCont)+" paths)")
	}
	c.check(rule, "z/core.orderedRows.Less returns false when all keys are equal", fn.Pos(), afterOK, "the exit of the key loop returns false", "rows equal on all keys are reported as 'less': sort.Sort's contract (irreflexive) is violated")
}

func isFieldValue(v ssa.Value, name string) bool {
	if f, ok := v.(*ssa.Field); ok {
		if fv := fieldVar(f.X.Type(), f.Field); fv != nil && fv.Name() == name {
			return true
		}
	}
	return false
}

func ruleC09b(c *Ctx, rule string) {
	c.describe(rule, "sibling agreement in core.compare: in every arm 'case T' of the type switch on a, b is asserted to the same T, and both outcomes 1 and -1 are returned")
	fn := c.need(rule, "z/core.compare")
	if fn == nil {
		return
	}
	pa, pb := fn.Params[0], fn.Params[1]
	n := 0
	for _, in := range instrs(fn) {
		ta, ok := in.(*ssa.TypeAssert)
		if !ok || !ta.CommaOk || ta.X != ssa.Value(pa) {
			continue
		}
		// arm: blocks dominated by ok==true
		var okIf *ssa.If
		for _, r := range *ta.Referrers() {
			if ex, isEx := r.(*ssa.Extract); isEx && ex.Index == 1 {
				for _, rr := range *ex.Referrers() {
					if i, isIf := rr.(*ssa.If); isIf {
						okIf = i
					}
				}
			}
		}
		if okIf == nil {
			continue
		}
		n++
		T := ta.AssertedType
		arm := blockSet{}
		for _, b := range fn.Blocks {
			if edgeDominates(okIf, true, b) {
				arm[b] = true
			}
		}
		okB, has1, hasM1 := true, false, false
		nb := 0
		var wrong string
		for b := range arm {
			for _, in2 := range b.Instrs {
				if t2, isTA := in2.(*ssa.TypeAssert); isTA && t2.X == ssa.Value(pb) {
					nb++
					if !types.Identical(t2.AssertedType, T) {
						okB = false
						wrong = typeStr(t2.AssertedType)
					}
				}
				if r, isR := in2.(*ssa.Return); isR {
					if k, isK := constInt(r.Results[0]); isK {
						if k == 1 {
							has1 = true
						}
						if k == -1 {
							hasM1 = true
						}
					}
				}
			}
		}
		inst := "compare case " + typeStr(T)
		c.check(rule, inst+": b asserted to the same type", ta.Pos(), okB && nb > 0, "b.("+typeStr(T)+")", "in the arm for a of type "+typeStr(T)+" the other operand is asserted to "+wrong+": comparing two values of that type panics")
		c.check(rule, inst+": both orders decided", ta.Pos(), has1 && hasM1, "returns 1 and -1", "the arm for "+typeStr(T)+" does not return both 1 and -1: one direction is never decided")
	}
	c.floor(rule, "arms of compare's type switch", n, 12)
}

func ruleC09c(c *Ctx, rule string) {
	c.describe(rule, "flow: addOrderLimitOffset nests Sort innermost, then Offset, then Limit, each fed the query's own field (OrderBy / Offset / Limit), and every planner path (local, cluster pushdown, cluster non-pushdown) returns through it")
	fn := c.need(rule, "z/planner.addOrderLimitOffset")
	if fn == nil {
		return
	}
	get := func(name string) []ssa.CallInstruction { return callsTo(fn, name) }
	sorts, offs, lims := get("z/core.Sort"), get("z/core.Offset"), get("z/core.Limit")
	if len(sorts) != 1 || len(offs) != 1 || len(lims) != 1 {
		c.undecided(rule, "addOrderLimitOffset wrappers", fn.Pos(), "expected exactly one call each of core.Sort, core.Offset, core.Limit (found "+itoa(len(sorts))+"/"+itoa(len(offs))+"/"+itoa(len(lims))+")")
		return
	}
	srcOnly := func(v ssa.Value, allowed ...ssa.Value) bool {
		return valueOnlyFrom(v, func(x ssa.Value) bool {
			if _, isP := x.(*ssa.Parameter); isP {
				return true
			}
			for _, a := range allowed {
				if x == a {
					return true
				}
			}
			return false
		})
	}
	sv, ov, lv := sorts[0].(ssa.Value), offs[0].(ssa.Value), lims[0].(ssa.Value)
	c.check(rule, "Sort wraps the plain source", sorts[0].Pos(), srcOnly(sorts[0].Common().Args[0]), "Sort(flat)", "Sort is applied to an already sliced (Offset/Limit) source: LIMIT/OFFSET would cut before ordering")
	c.check(rule, "Offset wraps Sort", offs[0].Pos(), srcOnly(offs[0].Common().Args[0], sv), "Offset(Sort?(flat))", "Offset is applied outside Limit / not on the sorted source: rows m..m+n-1 of the ordered result are not what is returned")
	c.check(rule, "Limit wraps Offset", lims[0].Pos(), srcOnly(lims[0].Common().Args[0], sv, ov) && dependsOn(lims[0].Common().Args[0], func(x ssa.Value) bool { return x == ov }), "Limit(Offset?(Sort?(flat)))", "Limit is not applied on top of Offset: LIMIT n OFFSET m returns rows 0..n-1 minus the first m instead of m..m+n-1")
	c.check(rule, "Offset receives query.Offset", offs[0].Pos(), isFieldLoad(offs[0].Common().Args[1], "z/sql.Query.Offset"), "core.Offset(…, query.Offset)", "core.Offset is not given query.Offset")
	c.check(rule, "Limit receives query.Limit", lims[0].Pos(), isFieldLoad(lims[0].Common().Args[1], "z/sql.Query.Limit"), "core.Limit(…, query.Limit)", "core.Limit is not given query.Limit")
	okRet := false
	for _, in := range instrs(fn) {
		if r, ok := in.(*ssa.Return); ok {
			okRet = srcOnly(r.Results[0], sv, ov, lv) && dependsOn(r.Results[0], func(x ssa.Value) bool { return x == lv })
		}
	}
	c.check(rule, "addOrderLimitOffset returns the outermost wrapper", fn.Pos(), okRet, "the result is the Limit/Offset/Sort chain", "the function does not return the wrapped source")
	for _, name := range []string{"z/planner.planLocal", "z/planner.planClusterPushdown", "z/planner.planClusterNonPushdown"} {
		pf := c.need(rule, name)
		if pf == nil {
			continue
		}
		calls_ := callsTo(pf, "z/planner.addOrderLimitOffset")
		ok := len(calls_) > 0
		if ok {
			ok = false
			// every successful return hands back the result of addOrderLimitOffset itself:
			// nothing (HAVING, another filter) is applied after the slice of the order
			nOK := 0
			ok = true
			for _, in := range instrs(pf) {
				r, isR := in.(*ssa.Return)
				if !isR || len(r.Results) == 0 || isNilConst(r.Results[0]) {
					continue
				}
				for _, leaf := range phiLeaves(r.Results[0]) {
					if isNilConst(leaf) {
						continue
					}
					direct := false
					for _, cl := range calls_ {
						if strip(leaf) == cl.(ssa.Value) {
							direct = true
						}
					}
					if direct {
						nOK++
					} else {
						ok = false
					}
				}
			}
			ok = ok && nOK > 0
		}
		c.check(rule, name+" returns through addOrderLimitOffset", pf.Pos(), ok, "ORDER BY / LIMIT / OFFSET are applied last, on the leader/locally", name+" does not return the result of addOrderLimitOffset itself: ORDER BY/LIMIT/OFFSET are not (re-)applied to the final rows, or another stage (e.g. HAVING) filters after LIMIT/OFFSET sliced the order — fewer than n rows, or rows outside m..m+n-1")
	}
}

// affine: value = n + c where n is the result of atomic.AddInt64(&cell, 1).
func affineOfCounter(v ssa.Value) (*ssa.Call, int64, bool) {
	var c int64
	for i := 0; i < 10; i++ {
		v = strip(v)
		switch x := v.(type) {
		case *ssa.Call:
			if isCall(x, "sync/atomic.AddInt64") {
				return x, c, true
			}
			return nil, 0, false
		case *ssa.BinOp:
			k, isK := constInt(x.Y)
			if !isK {
				return nil, 0, false
			}
			if x.Op == token.SUB {
				c -= k
			} else if x.Op == token.ADD {
				c += k
			} else {
				return nil, 0, false
			}
			v = x.X
		default:
			return nil, 0, false
		}
	}
	return nil, 0, false
}

func ruleC09d(c *Ctx, rule string) {
	c.describe(rule, "pathstate (counter domain, affine normal form over the atomic row counter): in limit.Iterate the downstream call happens exactly when k < limit, in offset.Iterate exactly when k >= offset, where k = rows seen before this one; the counter is a fresh local of each Iterate call, starts at 0 and is only incremented by 1 per row")
	for _, spec := range []struct {
		fn, field string
		isLimit   bool
	}{{"(*z/core.limit).Iterate", "z/core.limit.limit", true}, {"(*z/core.offset).Iterate", "z/core.offset.offset", false}} {
		fn := c.need(rule, spec.fn)
		if fn == nil {
			continue
		}
		var cb *ssa.Function
		for _, a := range fn.AnonFuncs {
			if len(callsTo(a, "sync/atomic.AddInt64")) > 0 {
				cb = a
			}
		}
		if cb == nil {
			c.bad(rule, spec.fn+": per-call row counter", fn.Pos(), "no row callback incrementing an atomic counter found in Iterate (the counter may have been moved out of the call: a second Iterate of the same plan would continue counting)")
			continue
		}
		c.touch(cb)
		add := callsTo(cb, "sync/atomic.AddInt64")[0].(*ssa.Call)
		// counter cell: free var bound to an Alloc in Iterate, initial store 0, no other stores
		cellOK := false
		if fv, ok := add.Call.Args[0].(*ssa.FreeVar); ok {
			if al, ok := cellRoot(fv).(*ssa.Alloc); ok && al.Parent() == fn {
				sts := cellStores(fn, al)
				cellOK = len(sts) == 1
				if cellOK {
					k, isK := constInt(sts[0].Val)
					cellOK = isK && k == 0
				}
			}
		}
		inc, isInc := constInt(add.Call.Args[1])
		c.check(rule, spec.fn+": per-call row counter", add.Pos(), cellOK && isInc && inc == 1, "a local int64 of this Iterate call, initialised to 0, incremented by 1 per row and never stored otherwise", "the row counter is not a fresh local starting at 0 and stepping by 1 (shared between Iterate calls, different initial value or step): LIMIT/OFFSET count wrongly on re-execution or from the first row")
		// the guard
		var downstream []ssa.Instruction
		for _, call := range calls(cb) {
			if call.Common().StaticCallee() == nil && !call.Common().IsInvoke() {
				v := call.Common().Value
				if u, isU := v.(*ssa.UnOp); isU && u.Op == token.MUL {
					v = u.X
				}
				if _, isFV := v.(*ssa.FreeVar); isFV {
					downstream = append(downstream, call)
				}
			}
		}
		if len(downstream) != 1 {
			c.undecided(rule, spec.fn+": guard of the downstream call", cb.Pos(), "expected one call of the downstream onRow")
			continue
		}
		ok := false
		var seenForm string
		for _, g := range guardsOf(downstream[0].Block()) {
			b, isB := g.v.(*ssa.BinOp)
			if !isB {
				continue
			}
			var lhs ssa.Value
			op := b.Op
			if isFieldLoad(b.Y, spec.field) {
				lhs = b.X
			} else if isFieldLoad(b.X, spec.field) {
				lhs = b.Y
				switch op {
				case token.LSS:
					op = token.GTR
				case token.GTR:
					op = token.LSS
				case token.LEQ:
					op = token.GEQ
				case token.GEQ:
					op = token.LEQ
				}
			} else {
				continue
			}
			call, cc, isAff := affineOfCounter(lhs)
			if !isAff || call != add {
				continue
			}
			if !g.pos {
				switch op {
				case token.LSS:
					op = token.GEQ
				case token.GEQ:
					op = token.LSS
				case token.LEQ:
					op = token.GTR
				case token.GTR:
					op = token.LEQ
				}
			}
			d := cc + 1 // lhs = k + d
			seenForm = "k" + signed(d) + " " + op.String() + " bound"
			if spec.isLimit {
				ok = (op == token.LSS && d == 0) || (op == token.LEQ && d == 1)
			} else {
				ok = (op == token.GEQ && d == 0) || (op == token.GTR && d == 1)
			}
		}
		want := "k < limit"
		if !spec.isLimit {
			want = "k >= offset"
		}
		c.check(rule, spec.fn+": downstream called exactly when "+want, downstream[0].Pos(), ok, "guard normalises to "+want+" (k = rows seen before this one)", "the guard of the downstream call normalises to '"+seenForm+"' instead of "+want+": off-by-one in LIMIT/OFFSET")
	}
	// stop() really stops without error
	if st := c.need(rule, "z/core.stop"); st != nil {
		ok := false
		for _, in := range instrs(st) {
			if r, isR := in.(*ssa.Return); isR && len(r.Results) == 2 {
				b, isC := constBool(r.Results[0])
				ok = isC && !b && isNilConst(r.Results[1])
			}
		}
		c.check(rule, "core.stop() = (false, nil)", st.Pos(), ok, "LIMIT ends the scan without an error", "stop() does not return (false, nil)")
	}
}

func signed(d int64) string {
	if d == 0 {
		return ""
	}
	if d > 0 {
		return "+" + itoa(int(d))
	}
	return itoa(int(d))
}

func init() {
	register(&PropSpec{
		ID:          "C09",
		Explanation: "Decides comparator totality per key (path enumeration over Less with the ordering domain), comparator sibling agreement (every arm of compare asserts both operands to the same type and decides both directions), operator nesting and argument wiring of Sort/Offset/Limit in every planner path, and the counter predicates of limit/offset (affine normal form). Added clauses: a top-level OFFSET never reaches the partitions of a pushed-down query (known finding K6); sub-query ORDER/LIMIT/OFFSET forbid pushdown at every nesting level (= C11.b); core.FlatRow values are built only where the field list ORDER BY needs can be bound. Further clause: every planner returns the result of addOrderLimitOffset itself (nothing filters after the slice of the order).",
		NotDecided:  []string{"sort.Sort itself (trusted)", "value comparison of mixed-type dimensions", "precision of numeric comparison (values)"},
		Assumptions: []string{"compare(x,y) < 0 iff x sorts before y (its shape is checked by C09.b, its arithmetic is not)"},
		Rules: []func(*Ctx){func(c *Ctx) { ruleC09a(c, "C09.a") }, func(c *Ctx) { ruleC09b(c, "C09.b") }, func(c *Ctx) { ruleC09c(c, "C09.c") }, func(c *Ctx) { ruleC09d(c, "C09.d") }, func(c *Ctx) { ruleC09e(c, "C09.e") }, func(c *Ctx) {
			c.describe("C09.f", "= C11.b: a sub-query ORDER BY / LIMIT / OFFSET at any nesting level forbids the whole-query pushdown (each partition would slice its own order)")
			ruleC11b(c, "C09.f")
		}, func(c *Ctx) { ruleC09g(c, "C09.g") }},
	})
}

// ruleC09e: a whole-query pushdown hands the SQL text to every partition as it
// is; each partition then applies the query's OFFSET to its own rows and the
// leader applies it again (addOrderLimitOffset). The slice of the global order is
// only right when no OFFSET reaches the partitions.
func ruleC09e(c *Ctx, rule string) {
	c.describe(rule, "dom: a query with a top-level OFFSET is never pushed down whole — pushdownAllowed (or Plan before it calls planClusterPushdown) tests the outermost query's Offset and that outcome cannot reach the pushdown; otherwise every partition skips its own first rows and the leader skips again")
	pa := c.need(rule, "z/planner.pushdownAllowed")
	pl := c.need(rule, "z/planner.Plan")
	if pa == nil || pl == nil {
		return
	}
	isTopOffset := func(fn *ssa.Function) func(v ssa.Value) bool {
		return func(v ssa.Value) bool {
			b, ok := v.(*ssa.BinOp)
			if !ok {
				return false
			}
			for _, x := range []ssa.Value{b.X, b.Y} {
				if !isFieldLoad(x, "z/sql.Query.Offset") {
					continue
				}
				// the base of the load is the function's own *sql.Query parameter (the outermost query)
				if base, _, ok := fieldOf(x); ok {
					if p, isP := resolveVal(c.P, base, fn).(*ssa.Parameter); isP && p.Parent() == fn {
						return true
					}
				}
			}
			return false
		}
	}
	guarded := false
	// (a) in pushdownAllowed: the offset>0 outcome cannot reach 'return true'
	for _, ci := range findIfs(pa, isTopOffset(pa)) {
		b := ci.v.(*ssa.BinOp)
		pos := b.Op == token.GTR || b.Op == token.NEQ // offset > 0 / offset != 0 on the true edge
		if b.Op != token.GTR && b.Op != token.NEQ && b.Op != token.EQL && b.Op != token.LEQ {
			continue
		}
		leak := false
		for bb := range reach([]*ssa.BasicBlock{ci.succFor(pos)}, nil, nil) {
			if len(bb.Instrs) > 0 {
				if r, isR := bb.Instrs[len(bb.Instrs)-1].(*ssa.Return); isR && len(r.Results) == 2 {
					if v, isC := constBool(r.Results[0]); isC && v {
						leak = true
					}
				}
			}
		}
		if !leak {
			guarded = true
		}
	}
	// (b) in Plan: the offset>0 outcome cannot reach planClusterPushdown
	for _, ci := range findIfs(pl, func(v ssa.Value) bool {
		b, ok := v.(*ssa.BinOp)
		return ok && (isFieldLoad(b.X, "z/sql.Query.Offset") || isFieldLoad(b.Y, "z/sql.Query.Offset"))
	}) {
		b := ci.v.(*ssa.BinOp)
		pos := b.Op == token.GTR || b.Op == token.NEQ
		leak := false
		for bb := range reach([]*ssa.BasicBlock{ci.succFor(pos)}, nil, nil) {
			for _, in := range bb.Instrs {
				if call, ok := in.(ssa.CallInstruction); ok && isCall(call, "z/planner.planClusterPushdown") {
					leak = true
				}
			}
		}
		if !leak {
			guarded = true
		}
	}
	c.check(rule, "pushdown never hands an OFFSET to the partitions", pa.Pos(), guarded, "a top-level OFFSET forbids the whole-query pushdown", "a query with LIMIT offset, n can be pushed down whole: every partition drops its own first 'offset' rows and the leader drops 'offset' rows again, so the rows returned are not rows offset+1..offset+n of the global order (wrong even with a single partition)")
}

// ruleC09g: FlatRow.Get (what ORDER BY <field> compares) resolves a field through
// the row's unexported field list, which only package core can set on
// construction (cluster rows get it through SetFields).
func ruleC09g(c *Ctx, rule string) {
	c.describe(rule, "reg (who-may-construct): core.FlatRow values are built only in package core (Flatten), which binds the field list; a row built elsewhere has no field list, so FlatRow.Get returns nil for every field and ORDER BY <field> degenerates to 'all equal'. Rows decoded from the wire are bound by SetFields in queryCluster")
	n := 0
	for _, fn := range c.P.ModFns {
		pk := pkgOf(fn)
		if strings.HasPrefix(pk, "z/cmd") || strings.HasPrefix(pk, "z/testsupport") {
			continue
		}
		for _, in := range instrs(fn) {
			al, ok := in.(*ssa.Alloc)
			if !ok {
				continue
			}
			if typeStr(al.Type()) != "*z/core.FlatRow" {
				continue
			}
			n++
			c.touch(fn)
			bound := false
			for _, call := range callsTo(fn, "(*z/core.FlatRow).SetFields") {
				if root(call.Common().Args[0]) == ssa.Value(al) {
					bound = true
				}
			}
			c.check(rule, "FlatRow built in "+stableName(fn), al.Pos(), pk == "z/core" || bound, "package core binds the field list (or SetFields is called on the new row)", "a core.FlatRow is constructed outside package core: its field list cannot be set there, so every field lookup on it (ORDER BY <field>, HAVING over sorted rows) yields nil and the requested order is silently ignored")
		}
	}
	c.floor(rule, "FlatRow construction sites", n, 1)
	// the wire path binds fields
	if qc := c.need(rule, "(*z.DB).queryCluster"); qc != nil {
		has := false
		for _, f := range withHelpers(c.P, qc) {
			if len(callsTo(f, "(*z/core.FlatRow).SetFields")) > 0 {
				has = true
			}
		}
		c.check(rule, "queryCluster binds the field list of rows received from partitions", qc.Pos(), has, "flatRow.SetFields(fieldsByPartition[…])", "rows decoded from a partition are handed on without SetFields: ORDER BY <field> on the leader compares nil values")
	}
}
