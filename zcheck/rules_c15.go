package main

import (
	"go/token"

	"golang.org/x/tools/go/ssa"
)

// C15 — altering a table keeps the stored values of every field it retains.

// identityClass classifies how a function decides that two fields are "the same".
func identityClass(P *Prog, fn *ssa.Function) string {
	cls := ""
	for _, in := range instrsH(P, fn) {
		switch x := in.(type) {
		case *ssa.Call:
			if isCall(x, "(z/core.Field).Equals") {
				cls = "name+expression"
			}
		case *ssa.BinOp:
			if x.Op != token.EQL && x.Op != token.NEQ {
				continue
			}
			sx := isCallValue(x.X, "(z/core.Field).String")
			sy := isCallValue(x.Y, "(z/core.Field).String")
			if sx && sy {
				cls = "name+expression"
			} else if sx || sy {
				// compared with a stored Field.String() rendering (file header)
				if cls == "" {
					cls = "name+expression (rendered)"
				}
			} else if isFieldLoadOrAddrName(x.X, "Name") || isFieldLoadOrAddrName(x.Y, "Name") || isFieldValue(x.X, "Name") || isFieldValue(x.Y, "Name") {
				if cls == "" {
					cls = "name only"
				}
			}
		case *ssa.Lookup:
			// map keyed by a field's Name
			if isFieldLoadOrAddrName(x.Index, "Name") || isFieldValue(x.Index, "Name") {
				cls = "name only"
			}
		case *ssa.MapUpdate:
			if isFieldLoadOrAddrName(x.Key, "Name") || isFieldValue(x.Key, "Name") {
				cls = "name only"
			}
		}
	}
	return cls
}

func ruleC15a(c *Ctx, rule string) {
	c.describe(rule, "reg: columns are mapped by field identity = name and expression everywhere — Field.Equals compares Field.String() (name and expression); outIdxsFor matches with Field.Equals; fileStore.info matches the header's strings against Field.String(); the header writer serialises Field.String() with the delimiter of the file version the reader uses; the coalescing code uses the same identity")
	if eq := c.need(rule, "(z/core.Field).Equals"); eq != nil {
		ok := false
		for _, in := range instrs(eq) {
			if b, isB := in.(*ssa.BinOp); isB && b.Op == token.EQL && isCallValue(b.X, "(z/core.Field).String") && isCallValue(b.Y, "(z/core.Field).String") {
				ok = true
			}
		}
		c.check(rule, "Field.Equals compares name and expression", eq.Pos(), ok, "f.String() == o.String()", "Field.Equals no longer compares the full rendering (name and expression)")
	}
	if st := c.need(rule, "(z/core.Field).String"); st != nil {
		// the rendering includes both Name and Expr
		usesName, usesExpr := false, false
		for _, in := range instrs(st) {
			if isFieldValue2(in, "Name") {
				usesName = true
			}
			if isFieldValue2(in, "Expr") {
				usesExpr = true
			}
		}
		c.check(rule, "Field.String renders name and expression", st.Pos(), usesName && usesExpr, "both Name and Expr appear in the rendering", "Field.String() does not include both the name and the expression: fields redefined under the same name are taken for the old field")
	}
	for _, name := range []string{"z.outIdxsFor", "(*z.fileStore).info"} {
		fn := c.need(rule, name)
		if fn == nil {
			continue
		}
		cls := identityClass(c.P, fn)
		c.check(rule, name+" matches fields by name and expression", fn.Pos(), cls == "name+expression" || cls == "name+expression (rendered)", "identity: "+cls, "identity used to map columns is '"+cls+"': a field that keeps its name but changes its expression inherits the old column's data (or retained fields are not recognised)")
	}
	// writer/reader agreement of the header
	if cw := c.need(rule, "(*z.fileStore).createOutWriter"); cw != nil {
		okStr := len(callsTo(cw, "(z/core.Field).String")) > 0
		okDelim := false
		for _, in := range instrs(cw) {
			if ia, ok := in.(*ssa.IndexAddr); ok {
				if g, isG := ia.X.(*ssa.Global); isG && g.Name() == "fieldsDelims" {
					if k, isK := constInt(ia.Index); isK {
						okDelim = constIntIsCurrentVersion(c, k)
					}
				}
			}
			if lk, ok := in.(*ssa.Lookup); ok {
				if u, isU := lk.X.(*ssa.UnOp); isU {
					if g, isG := u.X.(*ssa.Global); isG && g.Name() == "fieldsDelims" {
						if k, isK := constInt(lk.Index); isK {
							okDelim = constIntIsCurrentVersion(c, k)
						}
					}
				}
			}
		}
		c.check(rule, "header writer serialises Field.String()", cw.Pos(), okStr, "the reader compares against the same rendering", "the file header is not written from Field.String()")
		c.check(rule, "header writer uses the current version's delimiter", cw.Pos(), okDelim, "fieldsDelims[CurrentFileVersion]; new files are named with CurrentFileVersion and the reader indexes fieldsDelims by the file name's version", "the delimiter used to write the field list is not the one the reader will select for this file's version")
	}
	ruleIdentity(c, rule)
}

func constIntIsCurrentVersion(c *Ctx, k int64) bool {
	sp := c.P.ByPath[modPath]
	if sp == nil {
		return false
	}
	if m, ok := sp.Members["CurrentFileVersion"]; ok {
		if nc, ok := m.(*ssa.NamedConst); ok {
			if v, ok := constInt(nc.Value); ok {
				return v == k
			}
		}
	}
	return false
}

func isFieldValue2(in ssa.Instruction, name string) bool {
	switch x := in.(type) {
	case *ssa.Field:
		if f := fieldVar(x.X.Type(), x.Field); f != nil && f.Name() == name {
			return true
		}
	case *ssa.FieldAddr:
		if f := fieldVar(x.X.Type(), x.Field); f != nil && f.Name() == name {
			return true
		}
	}
	return false
}

// appendsPerIteration: in the outermost loop of fn, the number of appends to a
// slice of type typ on every path through one iteration is exactly one.
func appendsOncePerIteration(fn *ssa.Function, typ string) (ok bool, detail string) {
	var loop *loopInfo
	for _, l := range loopsOf(fn) {
		l := l
		// outermost loop that contains an append of that type
		has := false
		for b := range l.body {
			for _, in := range b.Instrs {
				if call, isC := in.(ssa.CallInstruction); isC && isCall(call, "builtin append") && typeStr(call.Common().Args[0].Type()) == typ {
					has = true
				}
			}
		}
		if has && (loop == nil || len(l.body) > len(loop.body)) {
			loop = &l
		}
	}
	if loop == nil {
		return false, "no loop appending to " + typ
	}
	H := loop.header
	body := H.Succs[0]
	okAll := true
	n := 0
	pathsToFrom(H, body, H, func(p pathAtoms) bool {
		n++
		cnt := 0
		for _, b := range p.blocks {
			for _, in := range b.Instrs {
				if call, isC := in.(ssa.CallInstruction); isC && isCall(call, "builtin append") && typeStr(call.Common().Args[0].Type()) == typ {
					cnt++
				}
			}
		}
		if cnt != 1 {
			okAll = false
			detail = itoa(cnt) + " append(s) on an iteration path"
		}
		return true
	})
	if n == 0 {
		return false, "no complete iteration path"
	}
	return okAll, detail
}

func ruleC15b(c *Ctx, rule string) {
	c.describe(rule, "pathstate (counter domain {0,1,≥2} per iteration path): positional builders append exactly one element per input element on every feasible path — fileStore.info (a placeholder for header fields that are no longer in the schema), outIdxsFor (-1 for unmatched), partitionRowMapper (index list); the column mappers index that list by the input position")
	for _, spec := range []struct{ fn, typ, what string }{
		{"(*z.fileStore).info", "z/core.Fields", "one entry of fileFields per header field (found or placeholder)"},
		{"z.outIdxsFor", "[]int", "one index per input field (-1 when unmatched)"},
		{"z.partitionRowMapper", "[]int", "one index per canonical field"},
	} {
		fn := c.need(rule, spec.fn)
		if fn == nil {
			continue
		}
		ok, detail := appendsOncePerIteration(fn, spec.typ)
		c.check(rule, spec.fn+": "+spec.what, fn.Pos(), ok, "exactly one append on every feasible path through the loop body (paths pruned with the phi environment)", "the positional list can get out of step with its input ("+detail+"): after a field is removed from the schema every later column of existing files is attributed to the wrong field")
	}
}

func ruleC15c(c *Ctx, rule string) {
	c.describe(rule, "dom/flow: a field change reaches the row store and takes effect before the next insert — applyFields sends the new fields on rowStore.fieldUpdates whenever they changed (non-virtual, non-passthrough tables); the fieldUpdates case flushes and installs a memstore built from the new fields on every path; newMemStore builds its tree from the same fields it records; raw pass-through compares the file header's fields (parsed from the file) with the requested ones")
	if af := c.need(rule, "(*z.table).applyFields"); af != nil {
		n := 0
		for _, in := range instrs(af) {
			sd, ok := in.(*ssa.Send)
			if !ok || !isFieldLoad(sd.Chan, "z.rowStore.fieldUpdates") {
				continue
			}
			n++
			okVal := len(af.Params) > 1 && sd.X == ssa.Value(af.Params[1])
			c.check(rule, "applyFields forwards the new fields to the row store", sd.Pos(), okVal, "rowStore.fieldUpdates <- fields", "the value sent to the row store is not the new field list")
		}
		if n == 0 {
			c.bad(rule, "applyFields forwards the new fields to the row store", af.Pos(), "changed fields are not sent on rowStore.fieldUpdates: the row store keeps writing the old layout while queries ask for the new one")
		}
		// the changed test is !fields.Equals(t.fields)
		okT := len(callsTo(af, "(z/core.Fields).Equals")) > 0
		c.check(rule, "applyFields detects changes by field identity", af.Pos(), okT, "fields.Equals(t.fields)", "the change test is not Fields.Equals")
	}
	if pi := c.need(rule, "(*z.rowStore).processInserts"); pi != nil {
		// the fieldUpdates receive case: a store to rs.fields of the received value
		var st *ssa.Store
		for _, s := range fieldStores(pi, "z.rowStore.fields") {
			st = s
		}
		if st == nil {
			c.bad(rule, "fieldUpdates: the row store adopts the new fields", pi.Pos(), "no store to rowStore.fields in processInserts")
		} else {
			// after it, on every path back to the select loop header, either the flush closure returned non-nil (new memstore built by doProcessFlush) or newMemStore is called
			l := innermostLoop(pi, st.Block())
			ok := false
			if l != nil {
				nm := callsTo(pi, "(*z.rowStore).newMemStore")
				// paths from st to loop header
				all := true
				n, complete := pathsTo(st.Block(), l.header, func(p pathAtoms) bool {
					viaNew := false
					for _, b := range p.blocks {
						for _, cl := range nm {
							if cl.Block() == b && b != pi.Blocks[0] {
								viaNew = true
							}
						}
					}
					calledFlush := false
					for _, b := range p.blocks {
						for _, in := range b.Instrs {
							if cl, isC := in.(*ssa.Call); isC && cl.Call.StaticCallee() != nil && cl.Call.StaticCallee().Parent() == pi && typeStr(cl.Type()) == "*z.memstore" {
								calledFlush = true
							}
						}
					}
					flushed := calledFlush && p.has(func(a atom) bool {
						x, nn, isNil := nilTest(a)
						return isNil && nn && typeStr(x.Type()) == "*z.memstore"
					})
					if !viaNew && !flushed {
						all = false
					}
					return true
				})
				ok = all && complete && n > 0
			}
			// the new fields must be in place before the flush that builds the next memstore from rs.fields
			var flushCalls []ssa.Instruction
			for _, in := range instrs(pi) {
				if cl, isC := in.(*ssa.Call); isC && cl.Call.StaticCallee() != nil && cl.Call.StaticCallee().Parent() == pi && typeStr(cl.Type()) == "*z.memstore" && l != nil && l.body[cl.Block()] {
					// only the flush in the fieldUpdates case: the one reachable from the store or reaching it within the case
					if instrReaches(st, cl, blockSet{l.header: true}) || instrReaches(cl, st, blockSet{l.header: true}) {
						flushCalls = append(flushCalls, cl)
					}
				}
			}
			before := len(flushCalls) > 0
			for _, fc := range flushCalls {
				if !instrDominates(st, fc) {
					before = false
				}
			}
			c.check(rule, "fieldUpdates: the new fields are adopted before the forced flush", st.Pos(), before, "rs.fields = fields dominates the flush that creates the next memstore", "the row store flushes (and builds the next memstore from rs.fields) before adopting the new fields: with unflushed data at ALTER time the next memstore has the old layout and points inserted until the next flush lose the added fields")
			c.check(rule, "fieldUpdates: a memstore with the new layout is installed before the next insert", st.Pos(), ok, "every path back to the select loop either flushed (new memstore from doProcessFlush) or calls newMemStore", "after a field change the row store can continue with a memstore built for the old fields: columns of later points land in the wrong positions")
		}
	}
	if nm := c.need(rule, "(*z.rowStore).newMemStore"); nm != nil {
		ok := false
		for _, call := range callsTo(nm, "z/bytetree.New") {
			ex := call.Common().Args[0]
			if cv, isC := root(ex).(*ssa.Call); isC && isCall(cv, "(z/core.Fields).Exprs") {
				for _, in := range instrs(nm) {
					if s, isS := in.(*ssa.Store); isS {
						if fa, isF := s.Addr.(*ssa.FieldAddr); isF {
							if f := fieldVar(fa.X.Type(), fa.Field); f != nil && fieldKey(fa.X.Type(), f) == "z.memstore.fields" && sameValue(s.Val, cv.Call.Args[0]) {
								ok = true
							}
						}
					}
				}
			}
		}
		c.check(rule, "newMemStore: tree layout = recorded fields", nm.Pos(), ok, "bytetree.New(fields.Exprs(), …) and memstore.fields = fields use the same value", "the memstore records a field list different from the one its tree was built with")
	}
	if it := c.need(rule, "(*z.fileStore).iterate"); it != nil {
		ok := false
		for _, call := range callsTo(it, "(z/core.Fields).Equals") {
			recv := call.Common().Args[0]
			if isResultOfCall(recv, 2, "(*z.fileStore).info") || dependsOn(recv, func(x ssa.Value) bool { return isResultOfCall(x, 2, "(*z.fileStore).info") }) {
				ok = true
			}
		}
		c.check(rule, "raw pass-through compares the file's own header fields", it.Pos(), ok, "fileFields (result of fs.info on this file).Equals(outFields)", "the raw pass-through gate does not compare the fields parsed from the file header (e.g. uses the schema's current fields): after a restart with a reordered schema rows are copied in the old column order under a header advertising the new order")
	}
}

func init() {
	register(&PropSpec{
		ID:          "C15",
		Explanation: "Decides that columns are mapped by field identity (name and expression) with aligned positional builders, and that a field change is propagated: one identity across Equals/outIdxsFor/info/coalescing and writer/reader agreement of the file header; exactly-one append per input element in every positional builder; applyFields → fieldUpdates → new memstore before the next insert; the scan-continuation rule (a row without requested columns must not end the scan); raw pass-through gated on the file's own header. Added clauses: the new fields are adopted before the ALTER-triggered flush builds the next memstore; applyWhere installs the new WHERE on every path. Further clauses: restart resume offsets include the offset file (= C02.f); file row column slices are allocated per row.",
		NotDecided:  []string{"end-to-end values across alteration histories", "WHERE changes apply only to points processed afterwards (applyWhere swaps the predicate under a mutex; not modelled)"},
		Assumptions: []string{"Field.String() is injective on (name, expression rendering)"},
		Rules: []func(*Ctx){func(c *Ctx) { ruleC15a(c, "C15.a") }, func(c *Ctx) { ruleC15b(c, "C15.b") }, func(c *Ctx) { ruleC15c(c, "C15.c") }, func(c *Ctx) { ruleC03a(c, "C15.d") }, func(c *Ctx) { ruleC03b(c, "C15.e") }, func(c *Ctx) { ruleC15f(c, "C15.f") }, func(c *Ctx) {
			c.describe("C15.g", "= C02.f: on restart the resume position is the data file's offsets advanced by the offset file — the only durable record of points that were processed but rejected; without it points rejected before an ALTER of the WHERE are re-processed under the new WHERE")
			ruleC02f(c, "C15.g")
		}, func(c *Ctx) { ruleC15h(c, "C15.h") }},
	})
}

// ruleC15f: an ALTER's new WHERE is adopted whatever it prints like.
func ruleC15f(c *Ctx, rule string) {
	c.describe(rule, "dom: (*table).applyWhere stores the new WHERE expression on every path, or skips the store only when old and new are the identical expression value (interface identity) — never on a comparison of renderings, which goexpr prints without quotes so that distinct predicates can print alike")
	aw := c.need(rule, "(*z.table).applyWhere")
	if aw == nil {
		return
	}
	var wp *ssa.Parameter
	for _, p := range aw.Params {
		if typeStr(p.Type()) == "github.com/getlantern/goexpr.Expr" {
			wp = p
		}
	}
	var sts []*ssa.Store
	for _, st := range fieldStores(aw, "z/sql.Query.Where") {
		sts = append(sts, st)
	}
	if wp == nil || len(sts) != 1 {
		c.undecided(rule, "applyWhere stores the new WHERE", aw.Pos(), "expected one goexpr.Expr parameter and one store to the table query's Where (found "+itoa(len(sts))+")")
		return
	}
	st := sts[0]
	ok := st.Val == ssa.Value(wp)
	why := ""
	for _, g := range guardsOf(st.Block()) {
		// only 'old != new' on the expression values themselves may guard the store
		b, isB := g.v.(*ssa.BinOp)
		identity := isB && (b.Op == token.NEQ || b.Op == token.EQL) &&
			((b.X == ssa.Value(wp) && isFieldLoad(b.Y, "z/sql.Query.Where")) || (b.Y == ssa.Value(wp) && isFieldLoad(b.X, "z/sql.Query.Where")))
		if !identity {
			ok = false
			why = " (guarded by a condition that is not the identity comparison of the two expressions)"
		}
	}
	c.check(rule, "applyWhere stores the new WHERE", st.Pos(), ok, "t.Where = where on every path (or skipped only for the identical value)", "the new WHERE is not always installed"+why+": a corrected predicate that renders like the old one (goexpr prints string constants without quotes: d IN ('x, y') vs d IN ('x', 'y')) is ignored and points keep being filtered by the old WHERE")
}

// ruleC15h: every file row gets its own column slice.
func ruleC15h(c *Ctx, rule string) {
	c.describe(rule, "flow (ownership): in fileStore.iterate the column slice handed to the row callback is allocated inside the loop over file rows — columns of fields that are not in the file's header (added by an ALTER while the file keeps its old header) are only ever merged into; a slice reused across rows leaks the previous key's values of such a field into the next key's row")
	it := c.need(rule, "(*z.fileStore).iterate")
	if it == nil {
		return
	}
	n := 0
	for _, p := range callbackParams(it) {
		for _, f := range withAnon(it) {
			for _, call := range calls(f) {
				if !isCallOfParam(call, p) && !(f != it && isCallOfFreeParam(call, p)) {
					continue
				}
				a := call.Common().Args
				if len(a) != 3 || isNilConst(a[1]) {
					continue
				}
				l := innermostLoop(f, call.Block())
				if l == nil {
					continue // the final memstore walk: rows come from the tree
				}
				v := resolveVal(c.P, a[1], it)
				ms, isMS := v.(*ssa.MakeSlice)
				if !isMS {
					if sl, isSl := v.(*ssa.Slice); isSl {
						if al, isAl := sl.X.(*ssa.Alloc); isAl {
							n++
							c.check(rule, "fileStore.iterate: file row columns are allocated per row", call.Pos(), loopsHave(f, call.Block(), al.Block()), "allocated inside the row loop", "the column slice passed to the row callback is allocated outside the loop over file rows: values of a field the file does not have yet carry over from one key to the next")
						}
					}
					continue
				}
				n++
				c.check(rule, "fileStore.iterate: file row columns are allocated per row", call.Pos(), loopsHave(f, call.Block(), ms.Block()), "make([]encoding.Sequence, …) inside the row loop", "the column slice passed to the row callback is allocated outside the loop over file rows: values of a field the file does not have yet (added by ALTER) carry over from one key to the next, and the next flush writes them to disk")
			}
		}
	}
	c.floor(rule, "file row callback calls in a loop", n, 1)
}

// loopsHave: the innermost loop around 'at' also contains block b.
func loopsHave(fn *ssa.Function, at, b *ssa.BasicBlock) bool {
	l := innermostLoop(fn, at)
	if l == nil {
		return false
	}
	// the outermost loop that still is a row loop: use every loop containing 'at'
	for _, ll := range loopsContaining(fn, at) {
		if ll.body[b] {
			return true
		}
	}
	return false
}

func isCallOfFreeParam(call ssa.CallInstruction, p *ssa.Parameter) bool {
	cc := call.Common()
	if cc.IsInvoke() || cc.StaticCallee() != nil {
		return false
	}
	if fv, ok := strip(cc.Value).(*ssa.FreeVar); ok {
		return cellRoot(fv) == ssa.Value(p)
	}
	if u, ok := strip(cc.Value).(*ssa.UnOp); ok {
		if fv, ok := u.X.(*ssa.FreeVar); ok {
			for _, st := range cellStores(p.Parent(), cellRoot(fv)) {
				if st.Val == ssa.Value(p) {
					return true
				}
			}
		}
	}
	return false
}
