package main

// Round-4 clause rules (one per independent seeded change that the earlier
// rules missed). Each states a clause of its property, not the tree's shape.

import (
	"go/constant"
	"go/token"
	"go/types"
	"strings"

	"golang.org/x/tools/go/ssa"
)

// guardsOnEdge: atoms known to hold when control flows pred -> succ.
func guardsOnEdge(pred, succ *ssa.BasicBlock) []atom {
	out := guardsOf(pred)
	if i := ifOf(pred); i != nil && pred.Succs[0] != pred.Succs[1] {
		for k, br := range []bool{true, false} {
			if pred.Succs[k] == succ {
				v, p := unNot(i.Cond, br)
				out = append(out, expandShortCircuit(atom{v, p}, 0)...)
			}
		}
	}
	return out
}

func constIntVal(v ssa.Value) (int64, bool) {
	k, ok := v.(*ssa.Const)
	if !ok || k.Value == nil || k.Value.Kind() != constant.Int {
		return 0, false
	}
	n, exact := constant.Int64Val(k.Value)
	return n, exact
}

// signFacts: what the guards say about x's sign.
func signFacts(x ssa.Value, gs []atom) (neg, nonNeg, nonZero, pos bool) {
	for _, g := range gs {
		b, ok := g.v.(*ssa.BinOp)
		if !ok {
			continue
		}
		op, X, Y := b.Op, b.X, b.Y
		// normalise "0 op x" to "x op' 0"
		if k, isK := constIntVal(X); isK && k == 0 && sameValue(Y, x) {
			X, Y = Y, X
			switch op {
			case token.LSS:
				op = token.GTR
			case token.GTR:
				op = token.LSS
			case token.LEQ:
				op = token.GEQ
			case token.GEQ:
				op = token.LEQ
			}
		}
		k, isK := constIntVal(Y)
		if !isK || k != 0 || !sameValue(X, x) {
			continue
		}
		switch {
		case op == token.LSS && g.pos:
			neg = true
		case op == token.LSS && !g.pos:
			nonNeg = true
		case op == token.GEQ && g.pos:
			nonNeg = true
		case op == token.GEQ && !g.pos:
			neg = true
		case op == token.GTR && g.pos:
			pos = true
		case op == token.LEQ && !g.pos:
			pos = true
		case op == token.EQL && !g.pos:
			nonZero = true
		case op == token.NEQ && g.pos:
			nonZero = true
		}
	}
	if nonNeg && nonZero {
		pos = true
	}
	return
}

// negated returns y when v is -y (-1*y, y*-1, 0-y, unary minus).
func negated(v ssa.Value) (ssa.Value, bool) {
	switch t := v.(type) {
	case *ssa.UnOp:
		if t.Op == token.SUB {
			return t.X, true
		}
	case *ssa.BinOp:
		if t.Op == token.MUL {
			if k, ok := constIntVal(t.X); ok && k == -1 {
				return t.Y, true
			}
			if k, ok := constIntVal(t.Y); ok && k == -1 {
				return t.X, true
			}
		}
		if t.Op == token.SUB {
			if k, ok := constIntVal(t.X); ok && k == 0 {
				return t.Y, true
			}
		}
	}
	return nil, false
}

// provablyPositive: v > 0 under the guards gs (phis are split per edge).
func provablyPositive(v ssa.Value, gs []atom, depth int) bool {
	if depth > 6 {
		return false
	}
	if k, ok := constIntVal(v); ok {
		return k > 0
	}
	if cv, ok := v.(*ssa.Convert); ok {
		if _, isInt := cv.X.Type().Underlying().(*types.Basic); isInt && cv.X.Type().Underlying().(*types.Basic).Info()&types.IsInteger != 0 {
			return provablyPositive(cv.X, gs, depth+1)
		}
	}
	if ct, ok := v.(*ssa.ChangeType); ok {
		return provablyPositive(ct.X, gs, depth+1)
	}
	if ph, ok := v.(*ssa.Phi); ok {
		for i, e := range ph.Edges {
			if e == v {
				continue
			}
			if !provablyPositive(e, guardsOnEdge(ph.Block().Preds[i], ph.Block()), depth+1) {
				return false
			}
		}
		return len(ph.Edges) > 0
	}
	if y, ok := negated(v); ok {
		neg, _, _, _ := signFacts(y, gs)
		return neg
	}
	if call, ok := v.(*ssa.Call); ok {
		if sc := call.Call.StaticCallee(); sc != nil && absLike(sc) {
			// |x| > 0 iff x != 0
			arg := call.Call.Args[len(call.Call.Args)-1]
			neg, _, nonZero, pos := signFacts(arg, gs)
			return neg || nonZero || pos
		}
	}
	_, _, _, pos := signFacts(v, gs)
	return pos
}

// absLike: a one-parameter function every return of which is its parameter on a
// path where it is not negative, or its negation on a path where it is negative.
func absLike(fn *ssa.Function) bool {
	if len(fn.Params) != 1 || fn.Blocks == nil || len(fn.Blocks) > 6 {
		return false
	}
	p := fn.Params[0]
	n := 0
	for _, b := range fn.Blocks {
		r, ok := b.Instrs[len(b.Instrs)-1].(*ssa.Return)
		if !ok {
			continue
		}
		if len(r.Results) != 1 {
			return false
		}
		n++
		var leaves []struct {
			v  ssa.Value
			gs []atom
		}
		if ph, isPhi := r.Results[0].(*ssa.Phi); isPhi {
			for i, e := range ph.Edges {
				leaves = append(leaves, struct {
					v  ssa.Value
					gs []atom
				}{e, guardsOnEdge(ph.Block().Preds[i], ph.Block())})
			}
		} else {
			leaves = append(leaves, struct {
				v  ssa.Value
				gs []atom
			}{r.Results[0], guardsOf(b)})
		}
		for _, l := range leaves {
			neg, nonNeg, _, pos := signFacts(p, l.gs)
			if l.v == ssa.Value(p) && (nonNeg || pos) {
				continue
			}
			if y, isNeg := negated(l.v); isNeg && y == ssa.Value(p) && neg {
				continue
			}
			return false
		}
	}
	return n > 0
}

// ruleC16k: counting loops over query-supplied quantities advance.
func ruleC16k(c *Ctx, rule string) {
	c.describe(rule, "dom (sign analysis on the guards): every counting loop 'for i := …; i < limit; i += step' in package sql whose step is not a constant has a step that is provably positive on every path into the loop (tests against 0 that dominate, negation under 'step < 0') — a CROSSHIFT interval of the wrong sign must not make planning spin forever and allocate a field per turn")
	n := 0
	for _, fn := range c.P.ModFns {
		if pkgOf(fn) != "z/sql" {
			continue
		}
		for _, l := range loopsOf(fn) {
			i := ifOf(l.header)
			if i == nil {
				continue
			}
			cond, _ := unNot(i.Cond, true)
			b, ok := cond.(*ssa.BinOp)
			if !ok || (b.Op != token.LSS && b.Op != token.LEQ && b.Op != token.NEQ) {
				continue
			}
			ph, ok := b.X.(*ssa.Phi)
			if !ok || ph.Block() != l.header {
				continue
			}
			for k, e := range ph.Edges {
				if !l.body[ph.Block().Preds[k]] {
					continue
				}
				add, ok := e.(*ssa.BinOp)
				if !ok || add.Op != token.ADD || add.X != ssa.Value(ph) {
					continue
				}
				if _, isK := constIntVal(add.Y); isK {
					continue
				}
				n++
				c.touch(fn)
				okP := provablyPositive(add.Y, guardsOf(l.header), 0)
				c.check(rule, stableName(fn)+": the loop step is positive", add.Pos(), okP, "the step is > 0 on every path into the loop", "the step of a counting loop is not provably positive: with a query-supplied value of the other sign (e.g. CROSSHIFT(x, '1h', '-10m')) the loop never reaches its limit — planning neither returns nor fails, it spins and grows until the process dies")
			}
		}
	}
	c.floor(rule, "counting loops with a non-constant step in package sql", n, 1)
}

func isDecimalParse(v ssa.Value) bool {
	call, ok := v.(*ssa.Call)
	if !ok {
		return false
	}
	switch calleeName(call) {
	case "strconv.Atoi":
		return true
	case "strconv.ParseInt", "strconv.ParseUint":
		k, isK := constIntVal(call.Call.Args[1])
		return isK && k == 10
	}
	return false
}

// ruleC09h: LIMIT and OFFSET counts are read as decimal numbers.
func ruleC09h(c *Ctx, rule string) {
	c.describe(rule, "flow: the values stored into sql.Query.Limit and sql.Query.Offset derive from a decimal parse of the literal (strconv.Atoi, or ParseInt/ParseUint with base 10) — a base-0 parse reads LIMIT 010 as 8 rows")
	fn := c.need(rule, "(*z/sql.Query).applyLimit")
	if fn == nil {
		return
	}
	n := 0
	for _, key := range []string{"z/sql.Query.Limit", "z/sql.Query.Offset"} {
		for _, h := range withHelpers(c.P, fn) {
			for _, st := range fieldStores(h, key) {
				n++
				if dependsOn(st.Val, isDecimalParse) {
					c.ok(rule, key+" is parsed as a decimal number", st.Pos(), "derives from strconv.Atoi / ParseInt(…, 10, …)")
					continue
				}
				// look through one level of non-module callee for a non-decimal parse
				why := ""
				dependsOn(st.Val, func(v ssa.Value) bool {
					call, ok := v.(*ssa.Call)
					if !ok {
						return false
					}
					sc := call.Call.StaticCallee()
					if sc == nil || sc.Blocks == nil {
						return false
					}
					for _, in := range instrs(sc) {
						if cc, isC := in.(*ssa.Call); isC {
							nm := calleeName(cc)
							if (nm == "strconv.ParseInt" || nm == "strconv.ParseUint") && !isDecimalParse(cc) {
								why = short(sc.String()) + " parses with " + nm + " and a base other than 10"
							}
						}
					}
					return false
				})
				if why != "" {
					c.bad(rule, key+" is parsed as a decimal number", st.Pos(), "the count is not read as a decimal number ("+why+"): a zero-padded LIMIT/OFFSET such as 010 is taken as octal and the query returns other rows than m..m+n-1")
				} else {
					c.undecided(rule, key+" is parsed as a decimal number", st.Pos(), "the stored value does not derive from a recognised decimal parser (strconv.Atoi, ParseInt/ParseUint base 10)")
				}
			}
		}
	}
	c.floor(rule, "stores to Query.Limit / Query.Offset in applyLimit", n, 2)
}

// ruleC08j: integer literals of a predicate keep their exact value.
func ruleC08j(c *Ctx, rule string) {
	c.describe(rule, "flow: in sql.goExprFor no integer handed to goexpr.Constant comes from a float64→int conversion, and some integer constant derives from an integer parse of the literal — integer dimension values above 2^53 must compare equal to the same literal in WHERE / IN lists")
	fn := c.need(rule, "z/sql.goExprFor")
	if fn == nil {
		return
	}
	nInt, nParsed := 0, 0
	for _, h := range withHelpers(c.P, fn) {
		for _, call := range callsTo(h, "github.com/getlantern/goexpr.Constant") {
			mi, ok := call.Common().Args[0].(*ssa.MakeInterface)
			if !ok {
				continue
			}
			bt, isB := mi.X.Type().Underlying().(*types.Basic)
			if !isB || bt.Info()&types.IsInteger == 0 {
				continue
			}
			nInt++
			viaFloat := dependsOn(mi.X, func(v ssa.Value) bool {
				cv, ok := v.(*ssa.Convert)
				if !ok {
					return false
				}
				from, okF := cv.X.Type().Underlying().(*types.Basic)
				to, okT := cv.Type().Underlying().(*types.Basic)
				return okF && okT && from.Info()&types.IsFloat != 0 && to.Info()&types.IsInteger != 0
			})
			if dependsOn(mi.X, func(v ssa.Value) bool {
				call, ok := v.(*ssa.Call)
				if !ok {
					return false
				}
				nm := calleeName(call)
				return nm == "strconv.Atoi" || nm == "strconv.ParseInt" || nm == "strconv.ParseUint"
			}) {
				nParsed++
			}
			c.check(rule, "goExprFor: integer literals are not rounded through float64", call.Pos(), !viaFloat, "the integer constant does not pass through a float64", "an integer literal reaches goexpr.Constant through a float64→int conversion: integers that float64 cannot represent (above 2^53) are replaced by a neighbour, so WHERE id = <literal> and id IN (<literals>) select other rows than the same test against the stored dimension values")
		}
	}
	c.floor(rule, "integer constants built in goExprFor", nInt, 1)
	c.floor(rule, "integer constants deriving from an integer parse", nParsed, 1)
}

// ruleC10l: a follower announces every table of a partition-key group.
func ruleC10l(c *Ctx, rule string) {
	c.describe(rule, "flow: when followLeaders rebuilds the Partition of a partition-key group for a new subscriber, the tables already announced for that group are carried over — a value read from common.Partition.Tables of the existing entry reaches an append (as element or spread operand) or a copy whose destination is not an empty slice; otherwise the leader only knows the last table of the group and stops forwarding points that only the earlier tables' WHERE admits")
	top := c.need(rule, "(*z.DB).followLeaders")
	if top == nil {
		return
	}
	n, okN := 0, 0
	var pos token.Pos
	isTablesLoad := func(v ssa.Value) bool { return isFieldLoad(v, "z/common.Partition.Tables") }
	for _, fn := range withAnon(top) {
		// only in functions that also build a new common.Partition
		builds := false
		for _, in := range instrs(fn) {
			if a, ok := in.(*ssa.Alloc); ok && typeStr(a.Type()) == "*z/common.Partition" {
				builds = true
			}
		}
		if !builds {
			continue
		}
		for _, call := range calls(fn) {
			switch calleeName(call) {
			case "builtin append":
				args := call.Common().Args
				carried := len(args) == 2 && dependsOn(args[1], isTablesLoad)
				if len(args) == 2 && !carried {
					for _, e := range variadicElems(args[1]) {
						if dependsOn(e, isTablesLoad) {
							carried = true
						}
					}
				}
				if len(args) == 2 && typeStr(args[0].Type()) == "[]*z/common.PartitionTable" && carried {
					n++
					okN++
					pos = call.Pos()
				}
			case "builtin copy":
				args := call.Common().Args
				if typeStr(args[0].Type()) == "[]*z/common.PartitionTable" && dependsOn(args[1], isTablesLoad) {
					n++
					pos = call.Pos()
					isEmptyMake := func(v ssa.Value) bool {
						ms, ok := v.(*ssa.MakeSlice)
						if !ok {
							return false
						}
						k, isK := constIntVal(ms.Len)
						return isK && k == 0
					}
					dst := args[0]
					// a destination read back from the new Partition's field: take the value of the closest dominating store
					if isTablesLoad(dst) {
						var best *ssa.Store
						for _, st := range fieldStores(fn, "z/common.Partition.Tables") {
							if instrDominates(st, call.(ssa.Instruction)) && (best == nil || instrDominates(best, st)) {
								best = st
							}
						}
						if best != nil {
							dst = best.Val
						}
					}
					if !dependsOn(dst, isEmptyMake) {
						okN++
					}
				}
			}
		}
		if pos == token.NoPos {
			pos = fn.Pos()
		}
	}
	c.check(rule, "followLeaders: the rebuilt partition keeps the tables already announced", pos, okN > 0, "existing.Tables is carried into the new Partition", "the tables already announced for the partition-key group do not reach the rebuilt Partition (a copy into a zero-length slice copies nothing): the leader is told only about the last table of the group, evaluates only its WHERE, and the other tables never receive the points that only they admit")
	_ = n
}

// ruleC12n: one batch at a time between enqueuer and reducer.
func ruleC12n(c *Ctx, rule string) {
	c.describe(rule, "dom (must-pass): in enqueuePartitionRequests, after a batch size has been sent on the 'queued' channel every path to the end of that function passes a receive from the 'drained' channel (the stop case of the same select excepted) — the reducer emits a batch's results in WAL order only because no later entry is handed to the mappers before the batch has drained; with two batches in flight an entry is emitted after a later offset and processFollowers' offset filter drops it for every follower")
	top := c.need(rule, "(*z.DB).enqueuePartitionRequests")
	if top == nil {
		return
	}
	isChanOf := func(v ssa.Value, elem string) bool {
		ch, ok := v.Type().Underlying().(*types.Chan)
		return ok && typeStr(ch.Elem()) == elem
	}
	n := 0
	for _, fn := range withAnon(top) {
		for _, in := range instrs(fn) {
			sel, ok := in.(*ssa.Select)
			if !ok {
				continue
			}
			for idx, st := range sel.States {
				if st.Dir != types.SendOnly || !isChanOf(st.Chan, "int") {
					continue
				}
				n++
				// barrier blocks: those containing a receive from a chan bool
				barrier := blockSet{}
				for _, b := range fn.Blocks {
					for _, bi := range b.Instrs {
						switch t := bi.(type) {
						case *ssa.Select:
							for _, s2 := range t.States {
								if s2.Dir == types.RecvOnly && (isChanOf(s2.Chan, "bool") || isChanOf(s2.Chan, "struct{}")) {
									barrier[b] = true
								}
							}
						case *ssa.UnOp:
							if t.Op == token.ARROW && (isChanOf(t.X, "bool") || isChanOf(t.X, "struct{}")) {
								barrier[b] = true
							}
						}
					}
				}
				// the block entered when this case was chosen
				var start *ssa.BasicBlock
				if len(sel.States) == 1 && sel.Blocking {
					start = sel.Block()
				}
				for _, ci := range findIfs(fn, func(v ssa.Value) bool {
					b, ok := v.(*ssa.BinOp)
					if !ok || b.Op != token.EQL {
						return false
					}
					ex, isE := b.X.(*ssa.Extract)
					k, isK := constIntVal(b.Y)
					return isE && ex.Tuple == ssa.Value(sel) && ex.Index == 0 && isK && int(k) == idx
				}) {
					start = ci.succFor(true)
				}
				if start == nil {
					c.undecided(rule, "enqueuePartitionRequests: a queued batch is drained before the next", sel.Pos(), "cannot find the branch taken when the send on 'queued' was chosen")
					continue
				}
				escapes := false
				if !barrier[start] {
					for b := range reach([]*ssa.BasicBlock{start}, barrier, nil) {
						if len(b.Instrs) > 0 {
							if _, isR := b.Instrs[len(b.Instrs)-1].(*ssa.Return); isR {
								escapes = true
							}
						}
					}
				}
				c.check(rule, "enqueuePartitionRequests: a queued batch is drained before the next", sel.Pos(), !escapes, "after 'queued <- q' the function waits for 'drained' (or stop)", "after announcing a batch on 'queued' the enqueuer can return to feeding the mappers without waiting for 'drained': two batches are in flight, the reducer can emit an entry of the earlier batch after entries of the later one, and the per-follower offset filter then drops it — the point is in the leader's WAL and reaches no follower")
			}
		}
	}
	c.floor(rule, "sends on the 'queued' channel in enqueuePartitionRequests", n, 1)
}

// ruleC13j: only the consumer stops a cluster query.
func ruleC13j(c *Ctx, rule string) {
	c.describe(rule, "dom: in queryCluster the query-wide 'stopped' flag (the atomic cell whose value makes the coordinator discard every later row of every partition) is set only where the consumer's own callback has just returned more == false — never on a partition's failure: the other partitions would end cleanly, count as successful and their remaining rows would be dropped without any error or MissingPartitions entry")
	top := c.need(rule, "(*z.DB).queryCluster")
	if top == nil {
		return
	}
	// the setter: an anonymous function whose body is an atomic store of 1 to a captured cell that another closure loads
	var setters []*ssa.Function
	for _, fn := range withAnon(top) {
		if fn == top {
			continue
		}
		for _, call := range callsTo(fn, "sync/atomic.StoreInt64", "sync/atomic.StoreInt32", "sync/atomic.CompareAndSwapInt64") {
			if _, isFV := call.Common().Args[0].(*ssa.FreeVar); isFV && len(fn.Params) == 0 {
				setters = append(setters, fn)
			}
		}
	}
	if len(setters) == 0 {
		c.undecided(rule, "queryCluster: the stop flag setter", top.Pos(), "no closure storing to a captured atomic cell found")
		return
	}
	n := 0
	for _, set := range setters {
		// call sites: calls whose callee value resolves to a MakeClosure of `set` (directly or through a free variable)
		for _, fn := range withAnon(top) {
			for _, call := range calls(fn) {
				if !closureCallOf(call, set) {
					continue
				}
				n++
				guarded := false
				for _, g := range guardsOf(call.Block()) {
					if g.pos {
						continue
					}
					ex, isE := g.v.(*ssa.Extract)
					if !isE || ex.Index != 0 || typeStr(ex.Type()) != "bool" {
						continue
					}
					if cc, isC := ex.Tuple.(*ssa.Call); isC && calleeName(cc) == "dynamic" {
						// the callback is a parameter of queryCluster (the consumer's onRow / onFlatRow)
						if _, isP := cc.Call.Value.(*ssa.Parameter); isP {
							guarded = true
						}
						if _, isFV := cc.Call.Value.(*ssa.FreeVar); isFV {
							guarded = true
						}
					}
				}
				c.check(rule, "queryCluster: stop() only after the consumer declined more rows", call.Pos(), guarded, "guarded by !more of the consumer's callback", "the query-wide stop flag is set at a place that is not the consumer declining more rows (e.g. on a partition's non-retriable failure): the rows of every healthy partition are discarded from then on, those partitions finish cleanly and count as successful, and the caller gets a truncated result with a nil error")
			}
		}
	}
	c.floor(rule, "call sites of the stop-flag setter", n, 2)
}

// closureCallOf: call invokes the closure `target` (bound to a local of the enclosing function).
func closureCallOf(call ssa.CallInstruction, target *ssa.Function) bool {
	if call.Common().IsInvoke() {
		return false
	}
	switch t := root(call.Common().Value).(type) {
	case *ssa.MakeClosure:
		return t.Fn == ssa.Value(target)
	case *ssa.Function:
		return t == target
	}
	return false
}

// ruleSkipEvery: every WAL entry that is read but not stored advances the table's offset.
func ruleSkipEvery(c *Ctx, rule string) {
	c.describe(rule, "dom (must-pass): in the WAL consumer loop of a table, every path from the outcome 'insert returned false' back to the loop head passes the call of (*table).skip with that entry's offset — the offsets of rejected points (WHERE, retention, partition) reach the row store one by one, so that a restart never re-evaluates, under a later WHERE or schema, points that were already processed and rejected")
	skip := c.need(rule, "(*z.table).skip")
	ins := c.need(rule, "(*z.table).insert")
	if skip == nil || ins == nil {
		return
	}
	n := 0
	for _, fn := range c.P.ModFns {
		if pkgOf(fn) != "z" {
			continue
		}
		for _, call := range calls(fn) {
			if call.Common().StaticCallee() != ins {
				continue
			}
			cv, isV := call.(ssa.Value)
			if !isV {
				continue
			}
			l := innermostLoop(fn, call.Block())
			if l == nil {
				continue
			}
			for _, ci := range findIfs(fn, func(v ssa.Value) bool { return v == cv }) {
				n++
				c.touch(fn)
				start := ci.succFor(false)
				barrier := blockSet{}
				for _, sc := range calls(fn) {
					if sc.Common().StaticCallee() == skip {
						barrier[sc.Block()] = true
					}
				}
				okS := barrier[start] || !reach([]*ssa.BasicBlock{start}, barrier, nil)[l.header]
				c.check(rule, stableName(fn)+": a rejected entry's offset is always recorded", call.Pos(), okS, "skip(offset) is on every path from 'not inserted' to the next entry", "a WAL entry that was read and rejected can be passed over without (*table).skip: its offset never reaches the row store, so a flush or shutdown persists an older offset and the next start replays the rejected points — under a WHERE or field list changed in the meantime they are now stored, although they were processed before the change")
			}
		}
	}
	c.floor(rule, "tests of (*table).insert's result inside a consumer loop", n, 1)
}

// ruleC19e: a session expires after the package's session timeout, wherever it is minted.
func ruleC19e(c *Ctx, rule string) {
	c.describe(rule, "flow + sibling agreement: every value stored into web.AuthData.Expiration derives from one and the same package-level time.Duration variable (the session timeout that authenticate()'s renewal uses) — authenticate() serves without re-checking organisation membership while that instant lies in the future, so a session minted with another lifetime (the browser cookie's) keeps a removed member's access")
	type site struct {
		fn  *ssa.Function
		st  *ssa.Store
		gls map[string]bool
	}
	var sites []site
	for _, fn := range c.P.ModFns {
		if pkgOf(fn) != "z/web" {
			continue
		}
		for _, st := range fieldStores(fn, "z/web.AuthData.Expiration") {
			gls := map[string]bool{}
			dependsOn(st.Val, func(v ssa.Value) bool {
				if u, ok := v.(*ssa.UnOp); ok && u.Op == token.MUL {
					if g, isG := u.X.(*ssa.Global); isG && typeStr(u.Type()) == "time.Duration" {
						gls[short(g.String())] = true
					}
				}
				return false
			})
			sites = append(sites, site{fn, st, gls})
			c.touch(fn)
		}
	}
	// the reference: the global used by most sites (all of them on a sound tree)
	count := map[string]int{}
	for _, s := range sites {
		for g := range s.gls {
			count[g]++
		}
	}
	ref, best := "", 0
	for g, k := range count {
		if k > best || (k == best && g < ref) {
			ref, best = g, k
		}
	}
	for _, s := range sites {
		c.check(rule, stableName(s.fn)+": the session expiry is now + the session timeout", s.st.Pos(), ref != "" && s.gls[ref], "AuthData.Expiration derives from "+ref, "a session's Expiration does not derive from the session timeout the other site(s) use ("+ref+") — e.g. it reuses the browser cookie's lifetime: authenticate() trusts the cookie until then without asking GitHub again, so a user removed from the organisation keeps access to /run, /async and cached results")
	}
	c.floor(rule, "stores to AuthData.Expiration", len(sites), 2)
}

// ruleC20k: the transport's message size limits are the library's.
func ruleC20k(c *Ctx, rule string) {
	c.describe(rule, "reg (who-may-call): no module function configures gRPC message-size limits (grpc.MaxRecvMsgSize, MaxMsgSize, MaxSendMsgSize, MaxCallRecvMsgSize, MaxCallSendMsgSize, WithMaxMsgSize) — a follower ships unflat rows to the leader through the server's receive path, so a server-side 'inbound' cap silently bounds the size of rows a clustered query can return while the same query answered in-process returns them")
	limiters := map[string]bool{"MaxRecvMsgSize": true, "MaxMsgSize": true, "MaxSendMsgSize": true, "MaxCallRecvMsgSize": true, "MaxCallSendMsgSize": true, "WithMaxMsgSize": true}
	nCfg, nBad := 0, 0
	for _, fn := range c.P.ModFns {
		if strings.HasPrefix(pkgOf(fn), "z/cmd") {
			continue
		}
		for _, call := range calls(fn) {
			nm := calleeName(call)
			if nm == "google.golang.org/grpc.NewServer" || nm == "google.golang.org/grpc.Dial" || nm == "google.golang.org/grpc.DialContext" {
				nCfg++
				c.touch(fn)
				c.ok(rule, stableName(fn)+": "+strings.TrimPrefix(nm, "google.golang.org/")+" examined", call.Pos(), "transport construction site")
			}
			if strings.HasPrefix(nm, "google.golang.org/grpc.") && limiters[strings.TrimPrefix(nm, "google.golang.org/grpc.")] {
				if k, isK := constIntVal(call.Common().Args[0]); isK && k >= 4*1024*1024 {
					continue // raising the limit above the library default does not cut anything off that passed before
				}
				nBad++
				c.bad(rule, stableName(fn)+": no message-size cap on the transport", call.Pos(), "a gRPC message-size limit below the library default is configured ("+strings.TrimPrefix(nm, "google.golang.org/")+"): results a follower sends to the leader travel through the server's receive path, so rows or series larger than the cap make the leader abandon the partition — the clustered query returns fewer rows than the same query in-process")
			}
		}
	}
	c.floor(rule, "gRPC server/dial construction sites examined", nCfg, 2)
	_ = nBad
}

// The round-4 rules are appended to their properties here (this file's init
// runs after the rules_cNN.go files: same package, later file name).
func init() {
	add := func(id, expl string, rs ...func(*Ctx)) {
		p := registry[id]
		if p == nil {
			panic("rules_r4: property " + id + " not registered")
		}
		p.Rules = append(p.Rules, rs...)
		p.Explanation += " Round-4 clauses: " + expl
	}
	add("C08", "integer literals of predicates keep their exact value (no float64 detour).", func(c *Ctx) { ruleC08j(c, "C08.j") })
	add("C09", "LIMIT/OFFSET counts are parsed as decimal numbers.", func(c *Ctx) { ruleC09h(c, "C09.h") })
	add("C10", "a follower's announcement keeps every table of a partition-key group.", func(c *Ctx) { ruleC10l(c, "C10.l") })
	add("C12", "the enqueuer waits for a batch to drain before feeding the next one.", func(c *Ctx) { ruleC12n(c, "C12.n") })
	add("C13", "only the consumer declining more rows sets the query-wide stop flag.", func(c *Ctx) { ruleC13j(c, "C13.j") })
	add("C15", "rejected WAL entries always advance the recorded offset, so a later WHERE never re-admits them.", func(c *Ctx) { ruleSkipEvery(c, "C15.i") })
	add("C16", "counting loops over query-supplied steps provably advance.", func(c *Ctx) { ruleC16k(c, "C16.k") })
	add("C19", "a session's expiry derives from sessionTimeout.", func(c *Ctx) { ruleC19e(c, "C19.e") })
	add("C20", "no message-size cap is configured on the RPC transport.", func(c *Ctx) { ruleC20k(c, "C20.k") })
}

// ruleC14g: a grouped query never reaches back before the table's retention window.
func ruleC14g(c *Ctx, rule string) {
	c.describe(rule, "dom: (*group).GetAsOf returns a time computed from 'until' (instead of its own/its source's asOf) only under the test 'until.Sub(asOf) < resolution' — the planner clamps the query resolution to the window, so the grouped scan's asOf (the only thing that keeps expired rows still on disk out of grouped results) is never earlier than the table's; aligning asOf to whole query periods reaches back up to one query period, i.e. many table periods, before now - retention")
	fn := c.need(rule, "(*z/core.group).GetAsOf")
	if fn == nil {
		return
	}
	isTimeCall := func(name string) func(ssa.Value) bool {
		return func(v ssa.Value) bool {
			call, ok := v.(*ssa.Call)
			return ok && calleeName(call) == "(time.Time)."+name
		}
	}
	noArith := func(v ssa.Value) bool {
		return !dependsOn(v, func(x ssa.Value) bool {
			b, ok := x.(*ssa.BinOp)
			return ok && (b.Op == token.REM || b.Op == token.QUO)
		})
	}
	n := 0
	for _, in := range instrs(fn) {
		r, ok := in.(*ssa.Return)
		if !ok || len(r.Results) != 1 {
			continue
		}
		for _, leaf := range phiLeaves(r.Results[0]) {
			if !dependsOn(leaf, isTimeCall("Add")) {
				continue
			}
			n++
			li, isI := leaf.(ssa.Instruction)
			if !isI {
				continue
			}
			guarded := false
			for _, g := range guardsOf(li.Block()) {
				b, ok := g.v.(*ssa.BinOp)
				if !ok {
					continue
				}
				subLeft := dependsOn(b.X, isTimeCall("Sub")) && noArith(b.X) && noArith(b.Y)
				subRight := dependsOn(b.Y, isTimeCall("Sub")) && noArith(b.X) && noArith(b.Y)
				switch {
				case subLeft && ((b.Op == token.LSS && g.pos) || (b.Op == token.GEQ && !g.pos)):
					guarded = true
				case subRight && ((b.Op == token.GTR && g.pos) || (b.Op == token.LEQ && !g.pos)):
					guarded = true
				}
			}
			c.check(rule, "group.GetAsOf: asOf is moved back only when the window is shorter than one period", leaf.Pos(), guarded, "the recomputed asOf is guarded by until.Sub(asOf) < resolution", "GetAsOf can return a time computed from 'until' although the window already holds a whole period: the grouped scan then starts before the table's own asOf and rows that expired but are still on disk (up to ten flushes) show up in grouped results — and vanish again after the next truncating flush")
		}
	}
	c.floor(rule, "recomputed asOf values returned by group.GetAsOf", n, 1)
}

func init() {
	p := registry["C14"]
	p.Rules = append(p.Rules, func(c *Ctx) { ruleC14g(c, "C14.g") })
	p.Explanation += " Round-4 clause: a grouped query's asOf is recomputed from 'until' only when the window is shorter than one query period."
}

// ---- round 5 ----

// skippedInLoop: position of a test inside blk's innermost loop (other than the
// loop's own exit test) that lets an iteration go on without passing blk; "" if none.
func skippedInLoop(P *Prog, fn *ssa.Function, blk *ssa.BasicBlock) (string, bool) {
	l := innermostLoop(fn, blk)
	if l == nil {
		return "", false
	}
	bad := ""
	for b := range l.body {
		i := ifOf(b)
		if i == nil || b == l.header {
			continue
		}
		for k, br := range []bool{true, false} {
			other := b.Succs[1-k]
			if edgeDominates(i, br, blk) && l.body[other] && !reach([]*ssa.BasicBlock{other}, blockSet{l.header: true}, nil)[blk] {
				bad = P.Pos(i.Cond.Pos())
			}
		}
	}
	return bad, true
}

// ruleC14h: the truncating flush truncates every column.
func ruleC14h(c *Ctx, rule string) {
	c.describe(rule, "dom: in (*fileStore).doWrite the Sequence.Truncate of a row's columns is applied to every column of every row — inside the loop over the columns no test other than the loop's own exit test decides whether Truncate runs; a sequence's length says nothing about its position in time, so a 'short enough' series of a key that went quiet is entirely expired and must still be cut (and its key dropped)")
	fn := c.need(rule, "(*z.fileStore).doWrite")
	if fn == nil {
		return
	}
	n := 0
	for _, call := range callsTo(fn, "(z/encoding.Sequence).Truncate") {
		bad, inLoop := skippedInLoop(c.P, fn, call.Block())
		if !inLoop {
			continue
		}
		n++
		c.check(rule, "doWrite: every column is truncated at the retention boundary", call.Pos(), bad == "", "Truncate is unconditional in the column loop", "a column can be written without being truncated (test at "+bad+"): a series that lies wholly before now - retention but is short enough to pass that test is rewritten unchanged by every flush, the truncating one included — expired periods stay on disk and the key is never dropped")
	}
	c.floor(rule, "Truncate calls in doWrite's column loop", n, 1)
}

// ruleC15j: the file store installed by a flush describes the file just written.
func ruleC15j(c *Ctx, rule string) {
	c.describe(rule, "flow: the fileStore that doProcessFlush installs after a flush carries the row store's current field list (a load of rowStore.fields, the list the file's header was just written with) — not the previous fileStore's: after an ALTER that adds a field the next file holds that column, and a fileStore that still describes the old layout reads its stored values back as empty and the following flush drops them")
	fn := c.need(rule, "(*z.rowStore).doProcessFlush")
	if fn == nil {
		return
	}
	n := 0
	for _, h := range withHelpers(c.P, fn) {
		for _, st := range fieldStores(h, "z.fileStore.fields") {
			n++
			okF := isFieldLoad(resolveVal(c.P, st.Val, fn), "z.rowStore.fields") || isFieldLoad(st.Val, "z.rowStore.fields")
			c.check(rule, "doProcessFlush: the new fileStore has the fields the file was written with", st.Pos(), okF, "fileStore.fields = rs.fields", "the fileStore installed after a flush does not take the row store's current fields (e.g. it copies the previous fileStore's): once a field was added by ALTER, queries map the new file's columns with the old list, the added field's stored values read back empty and the next flush rewrites the file without them")
		}
	}
	c.floor(rule, "stores to fileStore.fields in doProcessFlush", n, 1)
}

// ruleC08k: an IN-subquery's value set holds every value its rows carry, NULL included.
func ruleC08k(c *Ctx, rule string) {
	c.describe(rule, "dom: the row callback with which planSubQueries collects an IN-subquery's distinct values records the dimension value of every row — the map update keyed by row.Key.Get(dim) is not guarded by any test: a missing dimension (nil) is one of the values, and goexpr's IN matches it against outer rows that lack the dimension too")
	top := c.need(rule, "z/planner.planSubQueries")
	if top == nil {
		return
	}
	n := 0
	for _, fn := range withAnon(top) {
		if fn == top || len(fn.Params) != 1 || typeStr(fn.Params[0].Type()) != "*z/core.FlatRow" {
			continue
		}
		for _, in := range instrs(fn) {
			mu, ok := in.(*ssa.MapUpdate)
			if !ok {
				continue
			}
			n++
			c.touch(fn)
			gs := guardsOf(mu.Block())
			c.check(rule, "planSubQueries: every row's dimension value enters the IN set", mu.Pos(), len(gs) == 0, "the value is recorded unconditionally", "the IN-subquery's row callback records a row's value only under a condition: values it skips (a missing dimension, i.e. NULL) are not in the set, so outer rows that the same predicate over the distinct values keeps are dropped")
		}
	}
	c.floor(rule, "value-set updates in the IN-subquery row callback", n, 1)
}

func init() {
	add := func(id, expl string, rs ...func(*Ctx)) {
		p := registry[id]
		p.Rules = append(p.Rules, rs...)
		p.Explanation += " Round-5 clause: " + expl
	}
	add("C08", "an IN-subquery's value set takes the dimension value of every row, NULL included.", func(c *Ctx) { ruleC08k(c, "C08.k") })
	add("C14", "the truncating flush truncates every column unconditionally.", func(c *Ctx) { ruleC14h(c, "C14.h") })
	add("C15", "the file store installed by a flush carries the row store's current field list.", func(c *Ctx) { ruleC15j(c, "C15.j") })
}

// ruleC03j: length-prefixed rows are read whole.
func ruleC03j(c *Ctx, rule string) {
	c.describe(rule, "E-style discipline: in package zenodb no Read([]byte) (int, error) method is called with its byte count ignored — rows are length-prefixed, so a buffer is filled with io.ReadFull (or the count is used); a bare Read may return fewer bytes without an error (a row that straddles the reader's internal buffer), and the sorted flush would then write a row whose tail is zeros")
	nFull, nRead := 0, 0
	for _, fn := range c.P.ModFns {
		if pkgOf(fn) != "z" {
			continue
		}
		for _, call := range calls(fn) {
			nm := calleeName(call)
			if nm == "io.ReadFull" || nm == "io.ReadAtLeast" {
				nFull++
				c.touch(fn)
				continue
			}
			cc := call.Common()
			var sig *types.Signature
			name := ""
			if cc.IsInvoke() {
				sig, _ = cc.Method.Type().(*types.Signature)
				name = cc.Method.Name()
			} else if sc := cc.StaticCallee(); sc != nil && sc.Signature.Recv() != nil {
				sig = sc.Signature
				name = sc.Name()
			}
			if sig == nil || name != "Read" || sig.Params().Len() != 1 || sig.Results().Len() != 2 {
				continue
			}
			if typeStr(sig.Params().At(0).Type()) != "[]byte" || typeStr(sig.Results().At(0).Type()) != "int" {
				continue
			}
			nRead++
			c.touch(fn)
			used := false
			if v, isV := call.(ssa.Value); isV {
				for _, r := range *v.Referrers() {
					if ex, ok := r.(*ssa.Extract); ok && ex.Index == 0 && len(*ex.Referrers()) > 0 {
						used = true
					}
				}
			}
			c.check(rule, stableName(fn)+": a Read's byte count is used", call.Pos(), used, "the count returned by Read is examined", "Read is called on a buffer that must be filled and its byte count is dropped: a short read (legal without an error) leaves the rest of a length-prefixed row unset — the sorted flush writes rows with a zeroed tail, so results differ between a sorted and an unsorted flush of the same data")
		}
	}
	c.floor(rule, "io.ReadFull/ReadAtLeast calls in package zenodb", nFull, 3)
	_ = nRead
}

func init() {
	p := registry["C03"]
	p.Rules = append(p.Rules, func(c *Ctx) { ruleC03j(c, "C03.j") })
	p.Explanation += " Round-5 clause: rows are read whole (no Read with its byte count ignored in package zenodb)."
}
