package main

import (
	"go/token"
	"go/types"
	"strings"

	"golang.org/x/tools/go/ssa"
)

// C10 — a partitioned cluster answers like a standalone database.

func ruleC10a(c *Ctx, rule string) {
	c.describe(rule, "reg: one routing function — the only function that takes a remainder by DBOpts.NumPartitions or reads the hash sum is (*DB).partitionFor; the leader (mapPartitionRequest) and the follower ((*table).insert via inPartition) both route through it; inPartition is exactly partitionFor(...) == partition")
	var remFns, sumFns []string
	for _, fn := range c.P.ModFns {
		if pkgOf(fn) != "z" {
			continue
		}
		for _, in := range instrs(fn) {
			if b, ok := in.(*ssa.BinOp); ok && b.Op == token.REM && isFieldLoad(b.Y, "z.DBOpts.NumPartitions") {
				remFns = append(remFns, stableName(fn))
			}
			if call, ok := in.(ssa.CallInstruction); ok && calleeName(call) == "invoke (hash.Hash32).Sum32" {
				sumFns = append(sumFns, stableName(fn))
			}
		}
	}
	c.check(rule, "only partitionFor maps a hash to a partition", token.NoPos, len(remFns) == 1 && remFns[0] == "(*z.DB).partitionFor" && len(sumFns) == 1 && sumFns[0] == "(*z.DB).partitionFor",
		"single routing function", "partition numbers are computed in: "+joinS(remFns)+" / hash sums read in: "+joinS(sumFns)+" — leader and follower can disagree on a point's partition")
	if mp := c.need(rule, "(*z.DB).mapPartitionRequest"); mp != nil {
		c.check(rule, "leader routes with partitionFor", mp.Pos(), len(callsTo(mp, "(*z.DB).partitionFor")) == 1, "mapPartitionRequest calls partitionFor", "the leader does not route through partitionFor")
	}
	if ip := c.need(rule, "(*z.DB).inPartition"); ip != nil {
		ok := false
		for _, in := range instrs(ip) {
			if r, isR := in.(*ssa.Return); isR && len(r.Results) == 1 {
				if b, isB := r.Results[0].(*ssa.BinOp); isB && b.Op == token.EQL {
					x, y := b.X, b.Y
					if _, isP := y.(*ssa.Parameter); !isP {
						x, y = y, x
					}
					if call, isC := x.(*ssa.Call); isC && isCall(call, "(*z.DB).partitionFor") {
						if p, isP := y.(*ssa.Parameter); isP && len(ip.Params) == 5 && p == ip.Params[4] {
							// arguments forwarded unchanged
							a := call.Call.Args
							ok = len(a) == 4 && a[1] == ssa.Value(ip.Params[1]) && a[2] == ssa.Value(ip.Params[2]) && a[3] == ssa.Value(ip.Params[3])
						}
					}
				}
			}
		}
		c.check(rule, "inPartition = (partitionFor(h, dims, keys) == partition)", ip.Pos(), ok, "exact equality with the forwarded arguments", "the follower-side partition test is not 'partitionFor(...) == own partition' on the same arguments")
	}
}

func ruleC10b(c *Ctx, rule string) {
	c.describe(rule, "dom (typestate of the shared hash): in partitionFor h.Reset() dominates every h.Write and h.Sum32 — the Hash32 is reused per goroutine, without Reset the partition of a point depends on the previous point and leader/follower disagree")
	pf := c.need(rule, "(*z.DB).partitionFor")
	if pf == nil {
		return
	}
	var reset ssa.CallInstruction
	for _, call := range calls(pf) {
		if calleeName(call) == "invoke (hash.Hash32).Reset" {
			reset = call
		}
	}
	if reset == nil {
		c.bad(rule, "partitionFor resets the shared hash", pf.Pos(), "no h.Reset() in partitionFor: the hash state of the previous point leaks into this one")
		return
	}
	ok := true
	n := 0
	for _, call := range calls(pf) {
		cn := calleeName(call)
		if cn == "invoke (hash.Hash32).Write" || cn == "invoke (hash.Hash32).Sum32" {
			n++
			if !instrDominates(reset, call) {
				ok = false
			}
		}
	}
	c.check(rule, "partitionFor resets the shared hash", reset.Pos(), ok && n >= 2, "Reset dominates "+itoa(n)+" Write/Sum32 calls", "h.Write/h.Sum32 can execute without a preceding h.Reset()")
	// only non-empty key bytes are hashed, and in the order of the key list
	var rng *ssa.BasicBlock
	for _, l := range loopsOf(pf) {
		if isRangeHeader(l.header) || isAscendingIndexLoop(l) {
			rng = l.header
		}
	}
	c.check(rule, "partitionFor hashes the keys in list order", pf.Pos(), rng != nil, "range loop over partitionKeys", "no loop over the partition keys")
}

func ruleC10c(c *Ctx, rule string) {
	c.describe(rule, "flow: leader and follower hash the same keys in the same order — (*table).insert passes its own t.PartitionBy and db.opts.Partition to inPartition; the follower announces sortedPartitionKeys(table.PartitionBy) and the leader stores sortedPartitionKeys(partition.Keys); sortedPartitionKeys sorts the slice it was given in place and returns that slice (so the follower's own t.PartitionBy has the order the leader hashes)")
	if ti := c.need(rule, "(*z.table).insert"); ti != nil {
		for _, call := range callsTo(ti, "(*z.DB).inPartition") {
			a := call.Common().Args
			ok := len(a) == 5 && isFieldLoad(a[3], "z.TableOpts.PartitionBy") && isFieldLoad(a[4], "z.DBOpts.Partition")
			c.check(rule, "follower filters with its own partition keys and number", call.Pos(), ok, "inPartition(h, dims, t.PartitionBy, t.db.opts.Partition)", "the follower's partition filter does not use the table's PartitionBy and the node's own partition number")
		}
	}
	if sp := c.need(rule, "z.sortedPartitionKeys"); sp != nil && len(sp.Params) == 1 {
		p := sp.Params[0]
		inPlace := false
		for _, call := range callsTo(sp, "sort.Strings") {
			if call.Common().Args[0] == ssa.Value(p) {
				inPlace = true
			}
		}
		retSame := true
		nRet := 0
		for _, in := range instrs(sp) {
			if r, ok := in.(*ssa.Return); ok && len(r.Results) == 2 {
				nRet++
				if r.Results[1] != ssa.Value(p) {
					retSame = false
				}
			}
		}
		c.check(rule, "sortedPartitionKeys sorts in place and returns the same slice", sp.Pos(), inPlace && retSame && nRet > 0, "sort.Strings(partitionKeys); return …, partitionKeys", "sortedPartitionKeys does not sort the caller's slice in place: the follower's t.PartitionBy keeps its declared order while the leader hashes the sorted order — points of tables partitioned by several keys listed non-alphabetically are applied by no partition")
	}
	for _, spec := range []struct{ fn, arg string }{
		{"(*z.DB).followLeaders", "z.TableOpts.PartitionBy"},
		{"(*z.DB).processFollowers", "z/common.Partition.Keys"},
	} {
		fn := c.need(rule, spec.fn)
		if fn == nil {
			continue
		}
		n := 0
		for _, f := range withAnon(fn) {
			for _, call := range callsTo(f, "z.sortedPartitionKeys") {
				n++
				c.check(rule, spec.fn+" canonicalises the key list", call.Pos(), isFieldLoad(call.Common().Args[0], spec.arg), "sortedPartitionKeys("+spec.arg+")", "the key list is not obtained from "+spec.arg)
				// the sorted keys (result 1) are what is stored / announced
				cv, _ := call.(*ssa.Call)
				used := cv != nil && resultOf(cv, 1) != nil && len(liveReferrers(resultOf(cv, 1))) > 0
				c.check(rule, spec.fn+" uses the sorted keys", call.Pos(), used, "result 1 (sorted keys) is stored/announced", "the sorted key list is discarded")
			}
		}
		c.floor(rule, "sortedPartitionKeys calls in "+spec.fn, n, 1)
	}
	// the leader hashes with the stored sorted keys
	if mp := c.need(rule, "(*z.DB).mapPartitionRequest"); mp != nil {
		for _, call := range callsTo(mp, "(*z.DB).partitionFor") {
			c.check(rule, "leader hashes with the partition spec's keys", call.Pos(), isFieldLoad(call.Common().Args[3], "z.partitionSpec.keys"), "partitionFor(h, dims, partition.keys)", "the leader does not hash with the canonical key list stored for the partition spec")
		}
	}
}

func init() {
	register(&PropSpec{
		ID:          "C10",
		Explanation: "Decides the structural clause 'leader routing and follower filtering are the same function of the same keys, and the hash is reset per point': single routing function, exact inPartition equality, Reset-before-use typestate, canonical (in-place sorted) key lists on both sides, and (with C11.b) whole-query pushdown only for partition-confined groups. Added clauses: every follower entry is partition-tested with the table's own keys; the follower's per-table offset advances only after the hand-over (= C12.a); announced tables (= C12.h). Further clauses: field-by-field struct copies in package zenodb carry every field; the all-dimensions hash is used only for tables without partition keys.",
		NotDecided:  []string{"end-to-end equality of results with a standalone database", "plan splitting beyond the pushdown predicate (see C11)", "timing / catch-up of followers"},
		Assumptions: []string{"murmur3 New32/Write/Sum32 are deterministic"},
		Rules: []func(*Ctx){func(c *Ctx) { ruleC10a(c, "C10.a") }, func(c *Ctx) { ruleC10b(c, "C10.b") }, func(c *Ctx) { ruleC10c(c, "C10.c") }, func(c *Ctx) { ruleC11b(c, "C10.d") }, func(c *Ctx) { ruleC12b(c, "C10.e") }, func(c *Ctx) { ruleC12c(c, "C10.f") }, func(c *Ctx) { ruleC12h(c, "C10.g") }, func(c *Ctx) {
			c.describe("C10.h", "= C01.b: on a follower every entry passes the table's own partition test before it is stored")
			ruleC01b(c, "C10.h")
		}, func(c *Ctx) { ruleC12a(c, "C10.i") }, func(c *Ctx) { ruleCopyComplete(c, "C10.j", "z") }, func(c *Ctx) { ruleC10k(c, "C10.k") }},
	})
}

// ruleCopyComplete: a hand-written copy of a struct carries every field over.
func ruleCopyComplete(c *Ctx, rule string, pkgs ...string) {
	c.describe(rule, "reg (copy completeness): wherever a struct value is built by copying fields from another value of the same type (a field stored from the same-named field of a source value of that type), every field of the type is carried over — a forgotten field is silently zero in the copy (processFollowers' deep copy of the stream/partition/table specs must keep each table's whereString: it keys the per-entry WHERE cache, and with one shared empty key a point rejected by one table's WHERE is withheld from the others)")
	n := 0
	for _, fn := range c.P.ModFns {
		pk := pkgOf(fn)
		in := false
		for _, p := range pkgs {
			if pk == p {
				in = true
			}
		}
		if !in {
			continue
		}
		for _, ins := range instrs(fn) {
			al, ok := ins.(*ssa.Alloc)
			if !ok {
				continue
			}
			pt, ok := al.Type().Underlying().(*types.Pointer)
			if !ok {
				continue
			}
			st, ok := pt.Elem().Underlying().(*types.Struct)
			if !ok || st.NumFields() < 2 {
				continue
			}
			stored := map[int]bool{}
			fromSame := 0
			for _, ref := range *al.Referrers() {
				fa, ok := ref.(*ssa.FieldAddr)
				if !ok {
					continue
				}
				for _, r2 := range *fa.Referrers() {
					s2, ok := r2.(*ssa.Store)
					if !ok || s2.Addr != ssa.Value(fa) {
						continue
					}
					stored[fa.Field] = true
					// value loaded from the same field of another value of this type?
					if u, ok := strip(s2.Val).(*ssa.UnOp); ok && u.Op == token.MUL {
						if fa2, ok := u.X.(*ssa.FieldAddr); ok && fa2.Field == fa.Field && fa2.X != ssa.Value(al) {
							if pt2, ok := fa2.X.Type().Underlying().(*types.Pointer); ok && types.Identical(pt2.Elem(), pt.Elem()) {
								fromSame++
							}
						}
					}
					if f2, ok := strip(s2.Val).(*ssa.Field); ok && f2.Field == fa.Field && types.Identical(f2.X.Type(), pt.Elem()) {
						fromSame++
					}
				}
			}
			if fromSame < 1 {
				continue
			}
			n++
			c.touch(fn)
			var missing []string
			for i := 0; i < st.NumFields(); i++ {
				if !stored[i] {
					missing = append(missing, st.Field(i).Name())
				}
			}
			top := topOf(fn)
			c.check(rule, stableName(top)+": copy #"+itoa(perTopCount(c, rule, top))+" of "+typeStr(pt.Elem())+" carries every field", al.Pos(), len(missing) == 0, "all "+itoa(st.NumFields())+" fields are set", "a field-by-field copy of "+typeStr(pt.Elem())+" leaves out "+strings.Join(missing, ", ")+": the copy silently has the zero value there")
		}
	}
	c.floor(rule, "field-by-field struct copies", n, 1)
}

// ruleC10k: which dimensions are hashed is decided by the table, not by the point.
func ruleC10k(c *Ctx, rule string) {
	c.describe(rule, "dom: in partitionFor the whole dimension map is hashed only when the table has no partition keys (len(partitionKeys) == 0) — a point that merely lacks the key dimensions hashes to the empty input, so that all rows agreeing on the partition keys (here: all missing them) live in one partition, which is what whole-query pushdown relies on")
	pf := c.need(rule, "(*z.DB).partitionFor")
	if pf == nil {
		return
	}
	var dims *ssa.Parameter
	for _, p := range pf.Params {
		if typeStr(p.Type()) == "github.com/getlantern/bytemap.ByteMap" {
			dims = p
		}
	}
	n := 0
	for _, call := range calls(pf) {
		if calleeName(call) != "invoke (hash.Hash32).Write" {
			continue
		}
		a := call.Common().Args
		if len(a) == 0 || dims == nil || root(a[0]) != ssa.Value(dims) && strip(a[0]) != ssa.Value(dims) {
			if _, isCT := strip(a[0]).(*ssa.ChangeType); !isCT {
				continue
			}
			if root(a[0]) != ssa.Value(dims) {
				continue
			}
		}
		n++
		ok := false
		for _, g := range guardsOf(call.Block()) {
			b, isB := g.v.(*ssa.BinOp)
			if !isB {
				continue
			}
			isLen := func(v ssa.Value) bool {
				cl, ok := v.(*ssa.Call)
				return ok && isCall(cl, "builtin len") && typeStr(cl.Call.Args[0].Type()) == "[]string"
			}
			zero := func(v ssa.Value) bool { k, ok := constInt(v); return ok && k == 0 }
			if (isLen(b.X) && zero(b.Y)) || (isLen(b.Y) && zero(b.X)) {
				// len(keys) > 0 false  /  len(keys) == 0 true / len(keys) != 0 false
				switch {
				case b.Op == token.GTR && isLen(b.X) && !g.pos, b.Op == token.EQL && g.pos, b.Op == token.NEQ && !g.pos, b.Op == token.LEQ && isLen(b.X) && g.pos:
					ok = true
				}
			}
		}
		c.check(rule, "partitionFor hashes all dims only for tables without partition keys", call.Pos(), ok, "h.Write(dims) is guarded by len(partitionKeys) == 0", "the all-dimensions fallback is not conditioned on the table having no partition keys (e.g. taken whenever nothing was hashed): points lacking the key dimensions are spread over the partitions, and a pushed-down GROUP BY <partition key> returns the missing-key group once per partition")
	}
	c.floor(rule, "h.Write(dims) in partitionFor", n, 1)
}
