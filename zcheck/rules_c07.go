package main

import (
	"go/token"
	"go/types"
	"sort"
	"strings"

	"golang.org/x/tools/go/ssa"
)

// C07 — ASOF/UNTIL return exactly the periods inside the requested window.

var asOfUntil = &rolePair{
	name:     "asOf and until",
	roleA:    "asOf",
	roleB:    "until",
	fieldsA:  setOf("AsOf", "asOf", "AsOfOffset"),
	fieldsB:  setOf("Until", "until", "UntilOffset"),
	paramsA:  setOf("asOf"),
	paramsB:  setOf("until"),
	methodsA: setOf("GetAsOf"),
	methodsB: setOf("GetUntil"),
	preserve: map[string]int{
		"z/encoding.RoundTimeUp": 0, "z/encoding.RoundTimeDown": 0, "z/encoding.RoundTimeUntilUp": 0, "z/encoding.RoundTimeUntilDown": 0,
		"(time.Time).Add": 1, "z/sql.stringToTimeOrDuration": 0,
	},
}

func ruleC07a(c *Ctx, rule string) {
	c.describe(rule, "flow (role colouring, pair asOf/until; carriers by name: fields AsOf/asOf/AsOfOffset vs Until/until/UntilOffset, parameters asOf vs until, accessors GetAsOf vs GetUntil; colour kept through copies, RoundTime*, now.Add(offset) and returned values of module functions): no value of one role is stored into, passed as, or returned from a carrier of the other role anywhere in packages zenodb, core, planner, sql, bytetree, encoding")
	checkRoles(c, rule, asOfUntil, fnsOfPkgs(c, "z", "z/core", "z/planner", "z/sql", "z/bytetree", "z/encoding"), 20)
	// asOfUntilFor's positional results
	if fn := c.need(rule, "z/planner.asOfUntilFor"); fn != nil {
		rc := &roleCtx{c: c, rp: asOfUntil, memo: map[*ssa.Function][]colour{}}
		cols := rc.returnColours(fn)
		ok := len(cols) == 4 && cols[0] == colA && cols[2] == colB
		c.check(rule, "asOfUntilFor returns (asOf, _, until, _)", fn.Pos(), ok, "result 0 carries only asOf, result 2 only until", "the positional results of asOfUntilFor do not carry (asOf, …, until, …): result colours are "+rc.colName(colAt(cols, 0))+" / "+rc.colName(colAt(cols, 2)))
		// and planLocal binds them in that order
		if pl := c.need(rule, "z/planner.planLocal"); pl != nil {
			for _, call := range callsTo(pl, "z/planner.resolutionFor") {
				a := call.Common().Args
				okB := len(a) >= 5 && isResultOfCall(a[3], 0, "z/planner.asOfUntilFor") && isResultOfCall(a[4], 2, "z/planner.asOfUntilFor")
				c.check(rule, "planLocal passes (asOf, until) to resolutionFor in order", call.Pos(), okB, "results 0 and 2 of asOfUntilFor", "resolutionFor receives asOf/until in the wrong order (the window until-asOf becomes negative and every resolution is 'truncated')")
			}
		}
	}
	// sql: TimeRange.From -> AsOf/AsOfOffset, To -> Until/UntilOffset
	if fn := c.need(rule, "(*z/sql.Query).applyTimeRange"); fn != nil {
		isFrom := func(v ssa.Value) bool {
			return isFieldLoad(v, "github.com/getlantern/sqlparser.TimeRange.From") || isFieldValue(v, "From")
		}
		isTo := func(v ssa.Value) bool {
			return isFieldLoad(v, "github.com/getlantern/sqlparser.TimeRange.To") || isFieldValue(v, "To")
		}
		n := 0
		for _, in := range instrs(fn) {
			st, ok := in.(*ssa.Store)
			if !ok {
				continue
			}
			fa, ok := st.Addr.(*ssa.FieldAddr)
			if !ok {
				continue
			}
			f := fieldVar(fa.X.Type(), fa.Field)
			if f == nil {
				continue
			}
			switch f.Name() {
			case "AsOf", "AsOfOffset":
				n++
				c.check(rule, "applyTimeRange: Query."+f.Name()+" from TIMERANGE from", st.Pos(), dependsOn(st.Val, isFrom) && !dependsOn(st.Val, isTo), "derived from TimeRange.From only", "Query."+f.Name()+" is not derived from the 'from' part of the time range")
			case "Until", "UntilOffset":
				n++
				c.check(rule, "applyTimeRange: Query."+f.Name()+" from TIMERANGE to", st.Pos(), dependsOn(st.Val, isTo) && !dependsOn(st.Val, isFrom), "derived from TimeRange.To only", "Query."+f.Name()+" is not derived from the 'to' part of the time range")
			}
		}
		c.floor(rule, "time range stores in applyTimeRange", n, 4)
	}
}

func colAt(c []colour, i int) colour {
	if i < len(c) {
		return c[i]
	}
	return colNone
}

// ruleC07c: relative bounds are anchored at the raw clock; the window is
// handed to SubMerge untouched.
func ruleC07c(c *Ctx, rule string) {
	c.describe(rule, "flow: relative ASOF/UNTIL offsets are added to the raw 'now' parameter (rounding happens once, afterwards, on the resulting bound); (*node).doUpdate hands the source column to SubMerge unmodified so that its shift-aware truncation sees the data before asOf")
	fn := c.need(rule, "z/planner.asOfUntilFor")
	if fn != nil {
		var now *ssa.Parameter
		for _, p := range fn.Params {
			if typeStr(p.Type()) == "time.Time" {
				now = p
			}
		}
		n := 0
		for _, call := range callsTo(fn, "(time.Time).Add") {
			a := call.Common().Args
			if !isFieldLoad(a[1], "z/sql.Query.AsOfOffset") && !isFieldLoad(a[1], "z/sql.Query.UntilOffset") {
				continue
			}
			n++
			c.check(rule, "asOfUntilFor: offsets are relative to the raw clock", call.Pos(), now != nil && a[0] == ssa.Value(now), "now.Add(offset) on the unmodified parameter", "the relative offset is added to a value other than the raw 'now' (e.g. a pre-rounded clock): with an unaligned clock and an offset that is not a multiple of the resolution the window is shifted by a period")
		}
		c.floor(rule, "relative-offset additions in asOfUntilFor", n, 2)
	}
	if du := c.need(rule, "(*z/bytetree.node).doUpdate"); du != nil {
		var valsP *ssa.Parameter
		for _, p := range du.Params {
			if isSeqContainer(p.Type()) {
				valsP = p
			}
		}
		for _, call := range callsTo(du, "(z/encoding.Sequence).SubMerge") {
			a := call.Common().Args[1]
			ok := false
			if u, isU := strip(a).(*ssa.UnOp); isU {
				if ia, isI := u.X.(*ssa.IndexAddr); isI && valsP != nil && ia.X == ssa.Value(valsP) {
					ok = true
				}
			}
			c.check(rule, "doUpdate: SubMerge receives the source column unmodified", call.Pos(), ok, "other = vals[i]", "the column handed to SubMerge is pre-trimmed/transformed: SubMerge's shift-aware truncation (asOf - shift) loses the periods just before asOf that shifted fields need")
		}
	}
}

func ruleC07b(c *Ctx, rule string) {
	c.describe(rule, "dom: planLocal rejects a query whose asOf lies before the source's asOf before any operator is built; getQueryable's default window is (until - RetentionPeriod, until] with until = RoundTimeUp(clock.Now()); group.GetAsOf/GetUntil fall back to the source when unset")
	if pl := c.need(rule, "z/planner.planLocal"); pl != nil {
		tests := findIfs(pl, func(v ssa.Value) bool {
			call, ok := v.(*ssa.Call)
			return ok && isCall(call, "(time.Time).Before") && isResultOfCall(call.Call.Args[0], 0, "z/planner.asOfUntilFor") && isCallValue(call.Call.Args[1], "invoke (z/core.RowSource).GetAsOf", "invoke (z/core.Source).GetAsOf")
		})
		if len(tests) == 0 {
			c.bad(rule, "planLocal: asOf before the table's asOf is an error", pl.Pos(), "no test asOf.Before(source.GetAsOf()) found: a query reaching back beyond the retention window silently returns a shorter range")
		}
		for _, ci := range tests {
			r := errflowFromEdge(c.P, ci.i.Block(), ci.succFor(true), &errflowCfg{})
			var later []ssa.Instruction
			for _, nm := range []string{"z/planner.addGroupBy", "z/core.Flatten", "z/planner.applySubQueryFilters"} {
				later = append(later, asInstrs(callsTo(pl, nm))...)
			}
			dom := true
			for _, l := range later {
				if !ci.i.Block().Dominates(l.Block()) {
					dom = false
				}
			}
			c.check(rule, "planLocal: asOf before the table's asOf is an error", ci.i.Pos(), r.ok && dom && len(later) > 0, "the test precedes all operators and its true outcome returns an error", "the range check does not return an error on every path / does not precede planning")
		}
	}
	if gq := c.need(rule, "(*z.DB).getQueryable"); gq != nil {
		var asOfSt, untilSt *ssa.Store
		for _, in := range instrs(gq) {
			if st, ok := in.(*ssa.Store); ok {
				if fa, ok := st.Addr.(*ssa.FieldAddr); ok {
					if f := fieldVar(fa.X.Type(), fa.Field); f != nil && fieldKey(fa.X.Type(), f) == "z.queryable.asOf" {
						asOfSt = st
					} else if f != nil && fieldKey(fa.X.Type(), f) == "z.queryable.until" {
						untilSt = st
					}
				}
			}
		}
		if asOfSt == nil || untilSt == nil {
			c.undecided(rule, "getQueryable window", gq.Pos(), "stores to queryable.asOf/until not found")
		} else {
			okU := dependsOn(untilSt.Val, func(v ssa.Value) bool {
				call, ok := v.(*ssa.Call)
				return ok && calleeName(call) == "invoke (github.com/getlantern/vtime.Clock).Now"
			}) && isCallValue(untilSt.Val, "z/encoding.RoundTimeUp")
			okA := dependsOn(asOfSt.Val, func(v ssa.Value) bool { return isFieldLoad(v, "z.TableOpts.RetentionPeriod") }) &&
				dependsOn(asOfSt.Val, func(v ssa.Value) bool { return v == untilSt.Val })
			c.check(rule, "getQueryable: until = RoundTimeUp(clock.Now())", untilSt.Pos(), okU, "as stated", "the default 'until' of a table is not the rounded-up database clock")
			c.check(rule, "getQueryable: asOf = until - RetentionPeriod", asOfSt.Pos(), okA, "derived from until and the table's RetentionPeriod", "the default 'asOf' of a table is not derived from until and RetentionPeriod")
		}
	}
	// group accessors fall back to the source when the option is the zero time
	for _, spec := range []struct{ m, field, src string }{{"GetUntil", "z/core.GroupOpts.Until", "GetUntil"}} {
		fn := c.need(rule, "(*z/core.group)."+spec.m)
		if fn == nil {
			continue
		}
		zero := findIfs(fn, func(v ssa.Value) bool {
			call, ok := v.(*ssa.Call)
			return ok && isCall(call, "(time.Time).IsZero")
		})
		ok := false
		for _, ci := range zero {
			for b := range reach([]*ssa.BasicBlock{ci.succFor(true)}, nil, nil) {
				for _, in := range b.Instrs {
					if call, isC := in.(ssa.CallInstruction); isC && call.Common().IsInvoke() && call.Common().Method.Name() == spec.src {
						ok = true
					}
				}
			}
		}
		c.check(rule, "(*group)."+spec.m+" falls back to the source", fn.Pos(), ok, "IsZero() → source."+spec.src+"()", "an unset bound is not replaced by the source's bound")
	}
	_ = token.NoPos
}

func init() {
	register(&PropSpec{
		ID:          "C07",
		Explanation: "Decides the structural clause 'asOf and until are never confused and the range check precedes planning': role colouring of every store/argument/return that carries a time bound by name across six packages; positional wiring of asOfUntilFor/resolutionFor; TIMERANGE from/to → AsOf/Until; the asOf-before-table-asOf error precedes planning; the default window derives from the clock and the retention period. Added clauses: purity of the window operators; a window shorter than one stored period is rejected by the finer-than-source test on the window itself. Further clauses: ParseDuration's component loop carries only the remaining text and the total; the planner's Now is the database clock.",
		NotDecided:  []string{"the three rounding rules (RoundTimeUp / UntilUp / UntilDown) at period boundaries", "Truncate/SubMerge alignment cases (values)"},
		Assumptions: []string{"carrier roles follow the identifiers asOf/until, AsOf/Until, GetAsOf/GetUntil used consistently in this code base"},
		Rules:       []func(*Ctx){func(c *Ctx) { ruleC07a(c, "C07.a") }, func(c *Ctx) { ruleC07b(c, "C07.b") }, func(c *Ctx) { ruleC07c(c, "C07.c") }, func(c *Ctx) { rulePurity(c, "C07.d") }, func(c *Ctx) { ruleC07e(c, "C07.e") }, func(c *Ctx) { ruleC07f(c, "C07.f") }, func(c *Ctx) { ruleC07g(c, "C07.g") }, func(c *Ctx) { ruleC07h(c, "C07.h") }},
	})
}

// ruleC07e: a window shorter than one stored period (empty or inverted after
// rounding) is rejected, not answered.
func ruleC07e(c *Ctx, rule string) {
	c.describe(rule, "pathstate: in resolutionFor, on every path where the resolution was truncated to the window (resolution > window), the value tested by the 'finer than the table's resolution' error check is that window itself — the only place an empty or inverted window (window < one stored period) is rejected; clamping it up first lets group.GetAsOf widen the window and return a period outside (asOf, until]")
	rf := c.need(rule, "z/planner.resolutionFor")
	if rf == nil {
		return
	}
	var window ssa.Value
	for _, call := range callsTo(rf, "(time.Time).Sub") {
		window = call.(ssa.Value)
	}
	if window == nil {
		c.undecided(rule, "resolutionFor: window = until.Sub(asOf)", rf.Pos(), "no time.Sub call found")
		return
	}
	isSrcRes := func(v ssa.Value) bool {
		cl, ok := resolveVal(c.P, v, rf).(*ssa.Call)
		return ok && cl.Call.IsInvoke() && cl.Call.Method.Name() == "GetResolution"
	}
	// the truncation test: resolution > window
	trunc := findIfs(rf, func(v ssa.Value) bool {
		b, ok := v.(*ssa.BinOp)
		return ok && ((b.Op == token.GTR && b.Y == window && !isSrcRes(b.X)) || (b.Op == token.LSS && b.X == window && !isSrcRes(b.Y)))
	})
	// the error test: resolution < source.GetResolution() whose true side returns an error
	errTests := findIfs(rf, func(v ssa.Value) bool {
		b, ok := v.(*ssa.BinOp)
		return ok && ((b.Op == token.LSS && isSrcRes(b.Y)) || (b.Op == token.GTR && isSrcRes(b.X)))
	})
	// only tests whose outcome is an error return
	var keep []condIf
	for _, et := range errTests {
		b := et.v.(*ssa.BinOp)
		errSide := et.succFor(b.Op == token.LSS && isSrcRes(b.Y) || b.Op == token.GTR && isSrcRes(b.X))
		onlyErr := true
		for bb := range reach([]*ssa.BasicBlock{errSide}, nil, nil) {
			if len(bb.Instrs) == 0 {
				continue
			}
			if r, isR := bb.Instrs[len(bb.Instrs)-1].(*ssa.Return); isR && isNilConst(r.Results[len(r.Results)-1]) {
				onlyErr = false
			}
		}
		if onlyErr {
			keep = append(keep, et)
		}
	}
	errTests = keep
	if len(trunc) != 1 || len(errTests) == 0 {
		c.undecided(rule, "resolutionFor: a window below one period is rejected", rf.Pos(), "expected one 'resolution > window' test and at least one 'resolution < source resolution' test (found "+itoa(len(trunc))+"/"+itoa(len(errTests))+")")
		return
	}
	ok := true
	n := 0
	why := ""
	for _, et := range errTests {
		b := et.v.(*ssa.BinOp)
		tested := b.X
		if isSrcRes(b.X) {
			tested = b.Y
		}
		// the test's true side must return a non-nil error
		pathsToFrom(trunc[0].i.Block(), trunc[0].succFor(true), et.i.Block(), func(p pathAtoms) bool {
			n++
			if p.resolve(tested) != window {
				ok = false
				why = "on the truncated path the tested value is not the window"
			}
			return true
		})
	}
	// and every path from the truncation to a nil-error return passes such a test
	for _, blk := range rf.Blocks {
		if len(blk.Instrs) == 0 {
			continue
		}
		r, isR := blk.Instrs[len(blk.Instrs)-1].(*ssa.Return)
		if !isR || !isNilConst(r.Results[len(r.Results)-1]) {
			continue
		}
		pathsToFrom(trunc[0].i.Block(), trunc[0].succFor(true), blk, func(p pathAtoms) bool {
			pass := false
			for _, pb := range p.blocks {
				for _, et := range errTests {
					if pb == et.i.Block() {
						pass = true
					}
				}
			}
			// a path on which resolution (== window) equals the source resolution skips the test legitimately
			if !pass && !p.has(func(a atom) bool {
				bb, isB := a.v.(*ssa.BinOp)
				return isB && (bb.Op == token.NEQ && !a.pos || bb.Op == token.EQL && a.pos) && (isSrcRes(bb.X) || isSrcRes(bb.Y))
			}) {
				ok = false
				why = "a truncated resolution can reach the successful return without the finer-than-source test"
			}
			return true
		})
	}
	c.check(rule, "resolutionFor: a window below one period is rejected", trunc[0].i.Pos(), ok && n > 0, "the truncated resolution (= window) is what the finer-than-source error test sees", "an empty or inverted window is no longer rejected ("+why+"): the plan is accepted and group.GetAsOf widens the window to one period ending at UNTIL — a period outside (asOf, until] is returned")
}

// ruleC07f: relative offsets parse component by component.
func ruleC07f(c *Ctx, rule string) {
	c.describe(rule, "flow: the component loop of sql.ParseDuration carries only the remaining text and the accumulated total from one component to the next — the per-component integer part, fraction and scale start afresh for every component; a fraction that survives into the next component shifts every relative ASOF/UNTIL built from a compound offset ('-0.5h10m')")
	pd := c.need(rule, "z/sql.ParseDuration")
	if pd == nil {
		return
	}
	var outer *loopInfo
	for _, l := range loopsOf(pd) {
		l := l
		hasStr := false
		for _, in := range l.header.Instrs {
			if ph, ok := in.(*ssa.Phi); ok && typeStr(ph.Type()) == "string" {
				hasStr = true
			}
		}
		if hasStr && (outer == nil || len(l.body) > len(outer.body)) {
			outer = &l
		}
	}
	if outer == nil {
		c.undecided(rule, "ParseDuration: per-component state is reset", pd.Pos(), "no loop over the remaining text found")
		return
	}
	nStr, nTotal := 0, 0
	var extra []string
	for _, in := range outer.header.Instrs {
		ph, ok := in.(*ssa.Phi)
		if !ok {
			continue
		}
		switch typeStr(ph.Type()) {
		case "string":
			nStr++
		case "int64", "uint64", "time.Duration":
			nTotal++
			if nTotal > 1 {
				extra = append(extra, ph.Comment+" "+typeStr(ph.Type()))
			}
		default:
			extra = append(extra, ph.Comment+" "+typeStr(ph.Type()))
		}
	}
	c.check(rule, "ParseDuration: per-component state is reset", outer.header.Instrs[0].Pos(), nStr == 1 && nTotal <= 1 && len(extra) == 0, "loop-carried: the remaining text and the total", "the component loop carries further state across components ("+strings.Join(extra, ", ")+"): a fraction or scale left over from one component is applied to the next")
}

// ruleC07g: "now" for relative offsets is the database clock.
func ruleC07g(c *Ctx, rule string) {
	c.describe(rule, "flow: (*DB).now — the planner's Opts.Now, from which relative ASOF/UNTIL are resolved — returns the database clock on every path, the same clock the table's default window and retention boundary are taken from; a different notion of now (e.g. the table's high-water mark) shifts relative windows against the absolute ones")
	nw := c.need(rule, "(*z.DB).now")
	if nw == nil {
		return
	}
	ok, n := true, 0
	for _, in := range instrs(nw) {
		r, isR := in.(*ssa.Return)
		if !isR {
			continue
		}
		n++
		for _, leaf := range phiLeaves(r.Results[0]) {
			if !isCallValue(leaf, "invoke (github.com/getlantern/vtime.Clock).Now") {
				ok = false
			}
		}
	}
	c.check(rule, "DB.now is the database clock", nw.Pos(), ok && n > 0, "return db.clock.Now()", "(*DB).now can return something other than db.clock.Now(): relative ASOF/UNTIL are resolved against a different instant than the table's default window and retention boundary")
	// and it is what the planner gets
	wired := false
	for _, fn := range c.P.ModFns {
		if pkgOf(fn) != "z" {
			continue
		}
		for _, st := range fieldStores(fn, "z/planner.Opts.Now") {
			if mc, isMC := st.Val.(*ssa.MakeClosure); isMC {
				if f, isF := mc.Fn.(*ssa.Function); isF && strings.HasSuffix(f.Name(), "now$bound") {
					wired = true
				}
			}
			if dependsOn(st.Val, func(v ssa.Value) bool {
				f, isF := v.(*ssa.Function)
				return isF && strings.Contains(f.String(), ".now")
			}) {
				wired = true
			}
		}
	}
	c.check(rule, "the planner's Now is DB.now", nw.Pos(), wired, "planner.Opts.Now = db.now", "planner.Opts.Now is not wired to (*DB).now")
}

// ruleC07h: composite expressions report the shift of their operands.
func ruleC07h(c *Ctx, rule string) {
	c.describe(rule, "reg: for every expression type in package expr that has operands (fields of type Expr), Shift() consults Shift() of each operand and its result depends on them — Sequence.SubMerge uses Expr.Shift() to reach back before asOf for shifted fields; a wrapper (IF, BOUNDED, aggregate, arithmetic) that reports 0 makes bounded queries lose the periods just after asOf of any shifted field it wraps (CROSSTAB wraps every field in IF)")
	n := 0
	var names []string
	byName := map[string]*ssa.Function{}
	for fn := range c.P.AllFns {
		if fn.Name() != "Shift" || fn.Signature.Recv() == nil || fn.Synthetic != "" || len(fn.Blocks) == 0 || pkgOf(fn) != "z/expr" {
			continue
		}
		nm := stableName(fn)
		if _, dup := byName[nm]; !dup {
			byName[nm] = fn
			names = append(names, nm)
		}
	}
	sort.Strings(names)
	for _, nm := range names {
		fn := byName[nm]
		t := fn.Signature.Recv().Type()
		if p, ok := t.(*types.Pointer); ok {
			t = p.Elem()
		}
		st, ok := t.Underlying().(*types.Struct)
		if !ok {
			continue
		}
		var operands []string
		for i := 0; i < st.NumFields(); i++ {
			if typeStr(st.Field(i).Type()) == "z/expr.Expr" {
				operands = append(operands, st.Field(i).Name())
			}
		}
		if len(operands) == 0 {
			continue
		}
		n++
		c.touch(fn)
		consulted := map[string]bool{}
		for _, f := range withAnon(fn) {
			for _, call := range calls(f) {
				if calleeName(call) != "invoke (z/expr.Expr).Shift" {
					continue
				}
				if _, fld, ok := fieldOf(call.Common().Value); ok && fld != nil {
					consulted[fld.Name()] = true
				}
			}
		}
		var missing []string
		for _, o := range operands {
			if !consulted[o] {
				missing = append(missing, o)
			}
		}
		dep := true
		for _, in := range instrs(fn) {
			if r, isR := in.(*ssa.Return); isR {
				if !dependsOn(r.Results[0], func(v ssa.Value) bool {
					cl, ok := v.(*ssa.Call)
					return ok && calleeName(cl) == "invoke (z/expr.Expr).Shift"
				}) {
					dep = false
				}
			}
		}
		c.check(rule, nm+" reports its operands' shift", fn.Pos(), len(missing) == 0 && dep, "consults "+strings.Join(operands, ", "), "Shift() of a composite expression does not derive from its operands' Shift() (ignored: "+strings.Join(missing, ", ")+"): SubMerge no longer reaches back before asOf for a shifted field wrapped in this expression, so a bounded query loses the periods right after asOf that the unbounded query reports")
	}
	c.floor(rule, "composite expression types with a Shift method", n, 5)
}
