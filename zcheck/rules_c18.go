package main

import (
	"sort"

	"golang.org/x/tools/go/ssa"
)

// C18 — a query observes the table as of a single instant.

func init() {
	register(&PropSpec{
		ID:          "C18",
		Explanation: "Decides the structural clause 'the snapshot handed to a scan shares no memory that the ingest path mutates in place, and is taken atomically with the file store': (a) isolation — Tree.Copy stores only fresh containers and fresh sequence bytes into the copy, key/label bytes are never written in place, memstore.copy() uses Tree.Copy of its own tree, rowStore.iterate scans exactly the copy taken in the call; (b) lock regions — file store and memstore copy are captured in one read-held region of rowStore.mx, and ingest applies offset+row in one write-held region (all fields of a point become visible together). Further clauses: Tree.Copy returns a fresh tree on every path; a scan reads the retention cutoff once; (d) purity — the flush walks the live memstore tree without holding rowStore.mx, which is only safe because no combiner (Sequence.Merge/SubMerge operands, Expr.Merge operands) writes through a sequence it was handed: an in-place merge lets a scan that starts mid-flush see file points already added into the live rows.",
		NotDecided:  []string{"behaviour under actual interleavings (timing)", "visibility across the flush swap beyond the lock-region clause"},
		Assumptions: []string{"sync.RWMutex provides mutual exclusion between the write-held and read-held regions"},
		Rules:       []func(*Ctx){func(c *Ctx) { ruleC18c(c, "C18.c") }, func(c *Ctx) { ruleIsolation(c, "C18.a") }, func(c *Ctx) { ruleLockRegions(c, "C18.b") }, func(c *Ctx) { rulePurity(c, "C18.d") }},
	})
}

// ruleC18c: a snapshot is a copy, and the scan's notion of "now" is fixed.
func ruleC18c(c *Ctx, rule string) {
	c.describe(rule, "flow: (1) Tree.Copy returns a freshly allocated tree on every path, never its receiver (an 'empty tree, nothing to copy' shortcut hands the live tree to the scan, which then sees every insert made while it reads the file); (2) the retention cutoff of a scan is read once, before the first row: (*table).truncateBefore — which follows the clock every insert advances — is not called inside a loop or a per-row closure of fileStore.iterate / rowMerger")
	if cp := c.need(rule, "(*z/bytetree.Tree).Copy"); cp != nil {
		ok, n := true, 0
		for _, in := range instrs(cp) {
			r, isR := in.(*ssa.Return)
			if !isR {
				continue
			}
			n++
			for _, leaf := range phiLeaves(r.Results[0]) {
				if _, isAl := strip(leaf).(*ssa.Alloc); !isAl {
					ok = false
				}
			}
		}
		c.check(rule, "Tree.Copy returns a fresh tree on every path", cp.Pos(), ok && n > 0, "every return hands back the tree allocated in Copy", "Tree.Copy can return something other than the tree it allocated (its receiver): the query's snapshot is the live memstore tree")
	}
	it := c.need(rule, "(*z.fileStore).iterate")
	if it == nil {
		return
	}
	scope := map[*ssa.Function]bool{}
	for _, f := range withHelpers(c.P, it) {
		scope[f] = true
	}
	for _, name := range []string{"z.rowMerger", "z.rowMapper"} {
		if f := c.P.Func(name); f != nil {
			for _, g := range withAnon(f) {
				scope[g] = true
			}
		}
	}
	n, bad := 0, ""
	var fns []*ssa.Function
	for f := range scope {
		fns = append(fns, f)
	}
	sort.Slice(fns, func(i, j int) bool { return fns[i].Pos() < fns[j].Pos() })
	for _, f := range fns {
		for _, call := range callsTo(f, "(*z.table).truncateBefore") {
			n++
			if f.Parent() != nil || len(loopsContaining(f, call.Block())) > 0 {
				bad = c.P.Pos(call.Pos())
			}
		}
	}
	c.check(rule, "a scan reads the retention cutoff once", it.Pos(), bad == "" && n > 0, itoa(n)+" call(s) of truncateBefore, none in a loop or per-row closure", "the retention cutoff is re-read per row (at "+bad+"): an insert that advances the clock while the scan runs changes the cutoff for the rows delivered after it, so one result mixes two instants")
}
