package main

// C18 — a query observes the table as of a single instant.

func init() {
	register(&PropSpec{
		ID:          "C18",
		Explanation: "Decides the structural clause 'the snapshot handed to a scan shares no memory that the ingest path mutates in place, and is taken atomically with the file store': (a) isolation — Tree.Copy stores only fresh containers and fresh sequence bytes into the copy, key/label bytes are never written in place, memstore.copy() uses Tree.Copy of its own tree, rowStore.iterate scans exactly the copy taken in the call; (b) lock regions — file store and memstore copy are captured in one read-held region of rowStore.mx, and ingest applies offset+row in one write-held region (all fields of a point become visible together).",
		NotDecided:  []string{"behaviour under actual interleavings (timing)", "visibility across the flush swap beyond the lock-region clause"},
		Assumptions: []string{"sync.RWMutex provides mutual exclusion between the write-held and read-held regions"},
		Rules:       []func(*Ctx){func(c *Ctx) { ruleIsolation(c, "C18.a") }, func(c *Ctx) { ruleLockRegions(c, "C18.b") }},
	})
}
