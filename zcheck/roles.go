package main

import (
	"go/token"
	"go/types"
	"sort"
	"strings"

	"golang.org/x/tools/go/ssa"
)

// roles engine ("flow" with role colouring). A pair of opposite roles (e.g.
// asOf / until) is attached to carrier objects by name: struct fields,
// parameters, accessor methods. A value read from a carrier of role R keeps
// colour R through copies (phis, conversions, single-function cells), through
// the listed colour-preserving calls and through module functions whose
// returned value is so coloured; arithmetic and all other calls yield an
// uncoloured value. A violation is a value whose colour is exactly the
// opposite role reaching a carrier (field store, call argument bound to a
// named parameter, accessor return).

type rolePair struct {
	name     string
	roleA    string
	roleB    string
	fieldsA  map[string]bool
	fieldsB  map[string]bool
	paramsA  map[string]bool
	paramsB  map[string]bool
	methodsA map[string]bool // accessor method names returning role A
	methodsB map[string]bool
	preserve map[string]int // callee -> index of the argument whose colour the result keeps
}

type colour int

const (
	colNone colour = 0
	colA    colour = 1
	colB    colour = 2
)

type roleCtx struct {
	c     *Ctx
	rp    *rolePair
	memo  map[*ssa.Function][]colour
	depth int
}

func (rc *roleCtx) nameRole(name string, a, b map[string]bool) colour {
	if a[name] {
		return colA
	}
	if b[name] {
		return colB
	}
	return colNone
}

// colourOf computes the set of colours (bitset) a value can carry by copying.
func (rc *roleCtx) colourOf(v ssa.Value, seen map[ssa.Value]bool) colour {
	if v == nil || seen[v] {
		return colNone
	}
	seen[v] = true
	switch x := v.(type) {
	case *ssa.Parameter:
		return rc.nameRole(x.Name(), rc.rp.paramsA, rc.rp.paramsB)
	case *ssa.FreeVar:
		return rc.nameRole(x.Name(), rc.rp.paramsA, rc.rp.paramsB)
	case *ssa.ChangeType:
		return rc.colourOf(x.X, seen)
	case *ssa.Convert:
		return rc.colourOf(x.X, seen)
	case *ssa.MakeInterface:
		return rc.colourOf(x.X, seen)
	case *ssa.Phi:
		var col colour
		for _, e := range x.Edges {
			col |= rc.colourOf(e, seen)
		}
		return col
	case *ssa.UnOp:
		if x.Op != token.MUL {
			return colNone
		}
		switch a := x.X.(type) {
		case *ssa.FieldAddr:
			if f := fieldVar(a.X.Type(), a.Field); f != nil {
				return rc.nameRole(f.Name(), rc.rp.fieldsA, rc.rp.fieldsB)
			}
		case *ssa.Alloc:
			var col colour
			for _, st := range cellStores(x.Parent(), a) {
				col |= rc.colourOf(st.Val, seen)
			}
			if col == colNone {
				col = rc.nameRole(a.Comment, rc.rp.paramsA, rc.rp.paramsB)
			}
			return col
		case *ssa.FreeVar:
			return rc.nameRole(a.Name(), rc.rp.paramsA, rc.rp.paramsB)
		case *ssa.IndexAddr:
			return rc.colourOf(a.X, seen) // an element of a coloured list
		}
		return colNone
	case *ssa.Index:
		return rc.colourOf(x.X, seen)
	case *ssa.Field:
		if f := fieldVar(x.X.Type(), x.Field); f != nil {
			return rc.nameRole(f.Name(), rc.rp.fieldsA, rc.rp.fieldsB)
		}
	case *ssa.Extract:
		if call, ok := x.Tuple.(*ssa.Call); ok {
			return rc.callColour(call, x.Index, seen)
		}
	case *ssa.Call:
		return rc.callColour(x, 0, seen)
	}
	return colNone
}

func (rc *roleCtx) callColour(call *ssa.Call, idx int, seen map[ssa.Value]bool) colour {
	cn := calleeName(call)
	if k, ok := rc.rp.preserve[cn]; ok {
		if k < len(call.Call.Args) {
			return rc.colourOf(call.Call.Args[k], seen)
		}
		return colNone
	}
	// accessor methods (static or interface)
	var mname string
	if call.Call.IsInvoke() {
		mname = call.Call.Method.Name()
	} else if sc := call.Call.StaticCallee(); sc != nil && sc.Signature.Recv() != nil {
		mname = sc.Name()
	}
	if mname != "" {
		if r := rc.nameRole(mname, rc.rp.methodsA, rc.rp.methodsB); r != colNone {
			return r
		}
	}
	// module function: colour of its returned value
	if sc := call.Call.StaticCallee(); sc != nil && inModule(sc) && len(sc.Blocks) > 0 && rc.depth < 3 {
		cols := rc.returnColours(sc)
		if idx < len(cols) {
			return cols[idx]
		}
	}
	return colNone
}

func (rc *roleCtx) returnColours(fn *ssa.Function) []colour {
	if c, ok := rc.memo[fn]; ok {
		return c
	}
	n := fn.Signature.Results().Len()
	out := make([]colour, n)
	rc.memo[fn] = out
	rc.depth++
	for _, in := range instrs(fn) {
		if r, ok := in.(*ssa.Return); ok {
			for k, rv := range r.Results {
				if k < n {
					out[k] |= rc.colourOf(rv, map[ssa.Value]bool{})
				}
			}
		}
	}
	rc.depth--
	return out
}

func (rc *roleCtx) colName(col colour) string {
	switch col {
	case colA:
		return rc.rp.roleA
	case colB:
		return rc.rp.roleB
	case colA | colB:
		return rc.rp.roleA + "|" + rc.rp.roleB
	}
	return "uncoloured"
}

// checkRoles examines every sink in the given functions.
func checkRoles(c *Ctx, rule string, rp *rolePair, fns []*ssa.Function, floorSinks int) {
	rc := &roleCtx{c: c, rp: rp, memo: map[*ssa.Function][]colour{}}
	nSinks, nColoured := 0, 0
	report := func(fn *ssa.Function, what string, pos token.Pos, want, got colour) {
		nSinks++
		if got != colNone {
			nColoured++
		}
		inst := stableName(fn) + ": " + what
		if got != colNone && got&want == 0 {
			c.bad(rule, inst, pos, "a value of role '"+rc.colName(got)+"' is written to / passed as / returned from a '"+rc.colName(want)+"' carrier: "+rp.name+" are confused")
		} else if got != colNone {
			c.ok(rule, inst, pos, "carries role '"+rc.colName(got)+"'")
		}
	}
	sort.Slice(fns, func(i, j int) bool { return fns[i].Pos() < fns[j].Pos() })
	for _, fn := range fns {
		c.touch(fn)
		for _, in := range instrs(fn) {
			switch x := in.(type) {
			case *ssa.Store:
				if fa, ok := x.Addr.(*ssa.FieldAddr); ok {
					if f := fieldVar(fa.X.Type(), fa.Field); f != nil {
						if want := rc.nameRole(f.Name(), rp.fieldsA, rp.fieldsB); want != colNone {
							report(fn, "store to field "+fieldKey(fa.X.Type(), f), x.Pos(), want, rc.colourOf(x.Val, map[ssa.Value]bool{}))
						}
					}
				}
			case ssa.CallInstruction:
				cc := x.Common()
				var sig *types.Signature
				shift := 0
				if cc.IsInvoke() {
					sig, _ = cc.Method.Type().(*types.Signature)
				} else if sc := cc.StaticCallee(); sc != nil {
					sig = sc.Signature
					if sig.Recv() != nil {
						shift = 1
					}
				}
				if sig == nil {
					continue
				}
				for i := 0; i < sig.Params().Len(); i++ {
					pn := sig.Params().At(i).Name()
					want := rc.nameRole(pn, rp.paramsA, rp.paramsB)
					if want == colNone || i+shift >= len(cc.Args) {
						continue
					}
					report(fn, "argument '"+pn+"' of "+calleeName(x), x.Pos(), want, rc.colourOf(cc.Args[i+shift], map[ssa.Value]bool{}))
				}
			case *ssa.Return:
				if fn.Signature.Recv() != nil {
					if want := rc.nameRole(fn.Name(), rp.methodsA, rp.methodsB); want != colNone && len(x.Results) == 1 {
						report(fn, "return value", x.Pos(), want, rc.colourOf(x.Results[0], map[ssa.Value]bool{}))
					}
				}
			}
		}
	}
	c.floor(rule, "coloured "+rp.name+" sinks", nColoured, floorSinks)
	c.Notes = append(c.Notes, rule+": "+itoa(nSinks)+" role sinks examined, "+itoa(nColoured)+" carried a colour")
}

func fnsOfPkgs(c *Ctx, pkgs ...string) []*ssa.Function {
	var out []*ssa.Function
	for _, fn := range c.P.ModFns {
		p := pkgOf(fn)
		for _, q := range pkgs {
			if p == q {
				out = append(out, fn)
			}
		}
	}
	return out
}

func setOf(s ...string) map[string]bool {
	m := map[string]bool{}
	for _, x := range s {
		m[x] = true
	}
	return m
}

var _ = strings.ToLower
