package main

import (
	"go/token"
	"strings"

	"golang.org/x/tools/go/ssa"
)

// C14 — retention drops only expired data, and it stays gone.

func ruleC14b(c *Ctx, rule string) {
	c.describe(rule, "flow: on flush every column is truncated with asOf = the table's truncateBefore() evaluated for that flush and until = the zero time; a key is dropped only when no column survives; the retention boundary is clock.Now() - RetentionPeriod and the ingest filter compares the point's own timestamp with it")
	dw := c.need(rule, "(*z.fileStore).doWrite")
	fl := c.need(rule, "(*z.fileStore).flush")
	if dw != nil && fl != nil {
		var tbP *ssa.Parameter
		for _, p := range dw.Params {
			if typeStr(p.Type()) == "time.Time" {
				tbP = p
			}
		}
		n := 0
		for _, call := range callsTo(dw, "(z/encoding.Sequence).Truncate") {
			n++
			a := call.Common().Args
			okAsOf := len(a) == 5 && tbP != nil && a[3] == ssa.Value(tbP)
			okUntil := len(a) == 5 && isZeroTime(a[4])
			c.check(rule, "doWrite truncates each column at truncateBefore", call.Pos(), okAsOf, "Truncate(width, resolution, truncateBefore, …)", "the asOf bound of the flush-time truncation is not the truncateBefore parameter")
			c.check(rule, "doWrite does not cut the newest periods", call.Pos(), okUntil, "until = time.Time{}", "flush-time truncation is given a non-zero 'until': periods inside the retention window are dropped on flush")
		}
		c.floor(rule, "Truncate call in doWrite", n, 1)
		// flush passes truncateBefore() to doWrite
		okFlow := false
		for _, f := range withAnon(fl) {
			for _, call := range callsTo(f, "(*z.fileStore).doWrite") {
				for _, a := range call.Common().Args {
					if typeStr(a.Type()) == "time.Time" && isCallValue(a, "(*z.table).truncateBefore") {
						okFlow = true
					}
					if fv, isFV := a.(*ssa.FreeVar); isFV && typeStr(a.Type()) == "time.Time" {
						if isCallValue(cellRoot(fv), "(*z.table).truncateBefore") {
							okFlow = true
						}
					}
				}
			}
		}
		c.check(rule, "flush passes the table's truncateBefore() to doWrite", fl.Pos(), okFlow, "truncateBefore := fs.t.truncateBefore()", "the truncation bound used on flush is not the table's retention boundary")
		// key dropped only if no column survives: the early 'return highWaterMark, nil' before writing is guarded by hasActiveSequence == false
		okDrop := false
		for _, ci := range findIfs(dw, func(v ssa.Value) bool {
			if _, ok := v.(*ssa.Phi); !ok || typeStr(v.Type()) != "bool" {
				return false
			}
			hasTrue, hasFalse := false, false
			for _, e := range phiLeaves(v) {
				b, isC := constBool(e)
				if !isC {
					return false
				}
				if b {
					hasTrue = true
				} else {
					hasFalse = true
				}
			}
			return hasTrue && hasFalse
		}) {
			// the no-active side returns without writing (no call to binary.Write reachable)
			s := ci.succFor(false)
			writes := false
			for b := range reach([]*ssa.BasicBlock{s}, nil, nil) {
				for _, in := range b.Instrs {
					if call, ok := in.(ssa.CallInstruction); ok && isCall(call, "encoding/binary.Write") {
						writes = true
					}
				}
			}
			s2 := ci.succFor(true)
			writes2 := false
			for b := range reach([]*ssa.BasicBlock{s2}, nil, nil) {
				for _, in := range b.Instrs {
					if call, ok := in.(ssa.CallInstruction); ok && isCall(call, "encoding/binary.Write") {
						writes2 = true
					}
				}
			}
			if !writes && writes2 {
				okDrop = true
			}
		}
		c.check(rule, "a key is dropped on flush only if no column survives", dw.Pos(), okDrop, "hasActiveSequence == false → nothing written; true → row written", "the keep/drop decision for a key on flush is not 'at least one column has data left after truncation'")
	}
	if tb := c.need(rule, "(*z.table).truncateBefore"); tb != nil {
		ok := false
		for _, in := range instrs(tb) {
			if r, isR := in.(*ssa.Return); isR {
				if call, isC := r.Results[0].(*ssa.Call); isC && isCall(call, "(time.Time).Add") {
					recvNow := isCallValue(call.Call.Args[0], "invoke (github.com/getlantern/vtime.Clock).Now")
					neg := false
					if b, isB := call.Call.Args[1].(*ssa.BinOp); isB && b.Op == token.MUL {
						k, isK := constInt(b.X)
						k2, isK2 := constInt(b.Y)
						neg = ((isK && k == -1) && isFieldLoad(b.Y, "z.TableOpts.RetentionPeriod")) || ((isK2 && k2 == -1) && isFieldLoad(b.X, "z.TableOpts.RetentionPeriod"))
					}
					ok = recvNow && neg
				}
			}
		}
		c.check(rule, "truncateBefore() = clock.Now() - RetentionPeriod", tb.Pos(), ok, "db.clock.Now().Add(-1 * t.RetentionPeriod)", "the retention boundary is not the database clock minus the table's retention period")
	}
	// the ingest filter compares the raw timestamp
	if ti := c.need(rule, "(*z.table).insert"); ti != nil {
		for _, ci := range findIfs(ti, func(v ssa.Value) bool {
			call, ok := v.(*ssa.Call)
			return ok && isCall(call, "(time.Time).Before") && isCallValue(call.Call.Args[1], "(*z.table).truncateBefore")
		}) {
			call := ci.v.(*ssa.Call)
			okRaw := isCallValue(call.Call.Args[0], "z/encoding.TimeFromBytes")
			c.check(rule, "the ingest filter tests the point's own timestamp", ci.i.Pos(), okRaw, "ts = TimeFromBytes(…); ts.Before(truncateBefore())", "the retention filter on ingest compares a derived time (e.g. the rounded-up period end) instead of the point's timestamp: points older than retention by less than a period are stored")
		}
	}
}

func isZeroTime(v ssa.Value) bool {
	v = strip(v)
	if c, ok := v.(*ssa.Const); ok && c.Value == nil {
		return true // zero value of a struct type
	}
	if u, ok := v.(*ssa.UnOp); ok && u.Op == token.MUL {
		if g, ok := u.X.(*ssa.Global); ok && (g.Name() == "zeroTime") {
			return true
		}
		if al, ok := u.X.(*ssa.Alloc); ok {
			// var t time.Time (never stored to)
			return len(cellStores(al.Parent(), al)) == 0
		}
	}
	return false
}

func ruleC14c(c *Ctx, rule string) {
	c.describe(rule, "flow: the truncating flush happens at least every 10th flush regardless of sorting — fs.iterate's rawOkay argument in flush is the negation of the disallowRaw parameter only; in doProcessFlush disallowRaw is exactly flushCount % k == c with k <= 10 and flushCount is incremented on every call")
	fl := c.need(rule, "(*z.fileStore).flush")
	if fl != nil {
		var dr *ssa.Parameter
		for _, p := range fl.Params {
			if p.Name() == "disallowRaw" {
				dr = p
			}
		}
		if dr == nil && len(fl.Params) > 0 {
			dr = fl.Params[len(fl.Params)-1]
		}
		ok := false
		for _, f := range withHelpers(c.P, fl) {
			for _, call := range callsTo(f, "(*z.fileStore).iterate") {
				a := call.Common().Args
				if len(a) >= 5 {
					if x, isNot := notOf(c.P, a[4], fl); isNot {
						ok = x == ssa.Value(dr)
					}
				}
			}
		}
		c.check(rule, "flush: rawOkay = !disallowRaw", fl.Pos(), ok, "fs.iterate(…, !disallowRaw, …)", "raw pass-through on flush is not controlled (only) by disallowRaw: the truncating flush can be skipped or raw rows never pass")
	}
	dpf := c.need(rule, "(*z.rowStore).doProcessFlush")
	if dpf != nil {
		for _, call := range callsTo(dpf, "(*z.fileStore).flush") {
			a := call.Common().Args
			v := a[len(a)-1]
			ok := false
			if b, isB := v.(*ssa.BinOp); isB && b.Op == token.EQL {
				if r, isR := b.X.(*ssa.BinOp); isR && r.Op == token.REM && isFieldLoad(r.X, "z.rowStore.flushCount") {
					k, isK := constInt(r.Y)
					cst, isC := constInt(b.Y)
					ok = isK && isC && k >= 1 && k <= 10 && cst >= 0 && cst < k
				}
			}
			c.check(rule, "doProcessFlush: every k-th (k <= 10) flush disallows raw", call.Pos(), ok, "disallowRaw = flushCount % k == c, k <= 10, independent of sorting", "disallowRaw is not exactly 'flushCount % k == c' with k <= 10 (e.g. and-ed with another condition): the truncating flush can be postponed indefinitely and expired data stays on disk")
		}
		// flushCount++ unconditional
		okInc := false
		for _, st := range fieldStores(dpf, "z.rowStore.flushCount") {
			if b, isB := st.Val.(*ssa.BinOp); isB && b.Op == token.ADD && isFieldLoad(b.X, "z.rowStore.flushCount") {
				if k, isK := constInt(b.Y); isK && k == 1 && st.Block() == dpf.Blocks[0] || dominatesAllReturns(dpf, st) {
					okInc = true
				}
			}
		}
		c.check(rule, "doProcessFlush: flushCount advances on every flush", dpf.Pos(), okInc, "flushCount++ on every path", "flushCount is not incremented on every flush: the 10th-flush truncation never comes")
	}
}

func dominatesAllReturns(fn *ssa.Function, in ssa.Instruction) bool {
	for _, b := range fn.Blocks {
		if len(b.Instrs) == 0 || b == fn.Recover {
			continue
		}
		if r, ok := b.Instrs[len(b.Instrs)-1].(*ssa.Return); ok {
			if !instrDominates(in, r) {
				return false
			}
		}
	}
	return true
}

func init() {
	register(&PropSpec{
		ID:          "C14",
		Explanation: "Decides where truncation is applied and with which bound: (a) the ingest filter rejects points before clock.Now()-RetentionPeriod, testing the point's own timestamp, before anything is stored; (b) every flush truncates each column at the table's truncateBefore() with a zero 'until' and drops a key only when nothing survives; (c) the truncating (non-raw) flush recurs every k <= 10 flushes independent of sorting; (d) the default query window and the range check derive from the clock and the retention period (C07.b). Added clause: Sequence.Merge discards the older operand as a whole only when its newest period (Until()) is expired. Further clause: nobody assigns TableOpts.RetentionPeriod.",
		NotDecided:  []string{"the off-by-one-period arithmetic at the moving boundary (values)", "Sequence.Truncate's own period arithmetic"},
		Assumptions: []string{"vtime.Clock.Now is the database clock"},
		Rules: []func(*Ctx){func(c *Ctx) {
			c.describe("C14.a", "dom: the retention filter precedes the store on ingest (see C01.b)")
			ruleC01b(c, "C14.a")
		}, func(c *Ctx) { ruleC14b(c, "C14.b") }, func(c *Ctx) { ruleC14c(c, "C14.c") }, func(c *Ctx) { ruleC07b(c, "C14.d") }, func(c *Ctx) { ruleMergeExpiry(c, "C14.e") }, func(c *Ctx) { ruleC14f(c, "C14.f") }},
	})
}

// ruleMergeExpiry: Sequence.Merge drops the older operand as a whole only when
// even its NEWEST period is older than the retention boundary.
func ruleMergeExpiry(c *Ctx, rule string) {
	c.describe(rule, "flow: in Sequence.Merge the test that discards the older operand altogether compares that operand's newest time (the result of Until(), after the later/earlier swap) with truncateBefore — not a time derived from it by period arithmetic (its oldest end), which would discard periods still inside the retention window")
	mg := c.need(rule, "(z/encoding.Sequence).Merge")
	if mg == nil {
		return
	}
	var tb *ssa.Parameter
	for _, p := range mg.Params {
		if p.Name() == "truncateBefore" {
			tb = p
		}
	}
	if tb == nil {
		for _, p := range mg.Params {
			if typeStr(p.Type()) == "time.Time" {
				tb = p
			}
		}
	}
	isRet := func(b *ssa.BasicBlock) bool {
		if len(b.Instrs) == 0 {
			return false
		}
		_, ok := b.Instrs[len(b.Instrs)-1].(*ssa.Return)
		return ok
	}
	n := 0
	for _, ci := range findIfs(mg, func(v ssa.Value) bool {
		call, ok := v.(*ssa.Call)
		if !ok || !isCall(call, "(time.Time).Before") || tb == nil {
			return false
		}
		return dependsOn(call.Call.Args[1], func(x ssa.Value) bool { return x == ssa.Value(tb) })
	}) {
		// only tests whose true edge returns straight away (the early-out)
		if !isRet(ci.succFor(true)) {
			continue
		}
		n++
		x := ci.v.(*ssa.Call).Call.Args[0]
		fromUntil := dependsOn(x, func(v ssa.Value) bool {
			cl, ok := v.(*ssa.Call)
			return ok && isCall(cl, "(z/encoding.Sequence).Until")
		})
		viaArith := dependsOn(x, func(v ssa.Value) bool {
			cl, ok := v.(*ssa.Call)
			return ok && (isCall(cl, "(time.Time).Add") || isCall(cl, "(z/encoding.Sequence).AsOf"))
		})
		c.check(rule, "Sequence.Merge discards the older operand only if its newest period is expired", ci.i.Pos(), fromUntil && !viaArith, "the compared time is the operand's Until()", "the early return that discards the older operand compares a time derived by period arithmetic (the operand's oldest end) with truncateBefore: an on-disk series that merely has an expired tail is dropped whole when its key gets new data, live periods included")
	}
	c.floor(rule, "expiry early-outs in Sequence.Merge", n, 1)
}

// ruleC14f: the retention period a table is declared with is the one that is applied.
func ruleC14f(c *Ctx, rule string) {
	c.describe(rule, "reg (who-writes): no function of the module assigns TableOpts.RetentionPeriod — it is taken as declared (schema/options); a 'normalised' value (rounded down to whole periods, clamped) makes the ingest filter and every flush drop points that are still inside the declared retention window")
	n := 0
	for _, fn := range c.P.ModFns {
		if strings.HasPrefix(pkgOf(fn), "z/cmd") || strings.HasPrefix(pkgOf(fn), "z/testsupport") {
			continue
		}
		for _, st := range fieldStores(fn, "z.TableOpts.RetentionPeriod") {
			n++
			c.touch(fn)
			c.bad(rule, stableName(topOf(fn))+" assigns TableOpts.RetentionPeriod", st.Pos(), "the declared retention period is overwritten (e.g. truncated to a multiple of the resolution): data is rejected on ingest and removed by flushes although it is younger than the declared retention")
		}
	}
	if n == 0 {
		c.ok(rule, "TableOpts.RetentionPeriod is never assigned by the module", token.NoPos, "it is only read (truncateBefore, CreateTable's validation, the default window)")
	}
	// positive control: it is read where the boundary is computed
	if tb := c.need(rule, "(*z.table).truncateBefore"); tb != nil {
		reads := false
		for _, in := range instrs(tb) {
			if v, ok := in.(ssa.Value); ok && isFieldLoad(v, "z.TableOpts.RetentionPeriod") {
				reads = true
			}
		}
		c.check(rule, "truncateBefore reads the declared RetentionPeriod", tb.Pos(), reads, "t.RetentionPeriod", "the retention boundary is not computed from TableOpts.RetentionPeriod")
	}
}
