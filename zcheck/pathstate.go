package main

import (
	"go/token"

	"golang.org/x/tools/go/ssa"
)

// pathstate engine: enumerate the acyclic CFG paths from the function entry
// (or from a given block) to a target block and hand the branch atoms taken
// along each path to a rule-specific predicate. The domain is finite (each
// block at most once per path); a path cap makes the result "undecided"
// instead of silently incomplete.

type pathAtoms struct {
	atoms  []atom
	blocks []*ssa.BasicBlock
	env    map[*ssa.Phi]ssa.Value // value each phi took on this path (last entry)
}

// resolve follows phis through the path environment.
func (p pathAtoms) resolve(v ssa.Value) ssa.Value {
	for i := 0; i < 10; i++ {
		ph, ok := v.(*ssa.Phi)
		if !ok {
			return v
		}
		nv, ok := p.env[ph]
		if !ok {
			return v
		}
		v = nv
	}
	return v
}

// knownNil: does the path establish x == nil (true,true) / x != nil (true,false)?
func (p pathAtoms) knownNil(x ssa.Value) (known bool, isNil bool) {
	x = p.resolve(strip(x))
	if isNilConst(x) {
		return true, true
	}
	if isNonNilConstErr(x) {
		return true, false
	}
	for _, a := range p.atoms {
		if y, nn, ok := nilTest(a); ok && p.resolve(strip(y)) == x {
			return true, !nn
		}
	}
	return false, false
}

const pathCap = 200000

// pathsTo enumerates acyclic paths from 'from' to 'to'. ok=false if the cap
// was hit.
func pathsTo(from, to *ssa.BasicBlock, visit func(p pathAtoms) bool) (n int, ok bool) {
	return pathsToFrom(nil, from, to, visit)
}

// pathsToFrom is pathsTo where the first block is entered through the edge
// pred->from (so that from's phis are bound to that edge's values).
func pathsToFrom(pred, from, to *ssa.BasicBlock, visit func(p pathAtoms) bool) (n int, ok bool) {
	ok = true
	onPath := map[*ssa.BasicBlock]bool{}
	var atoms []atom
	var blocks []*ssa.BasicBlock
	// prune: only walk blocks that can reach 'to'
	canReach := map[*ssa.BasicBlock]bool{}
	{
		var stack = []*ssa.BasicBlock{to}
		canReach[to] = true
		for len(stack) > 0 {
			b := stack[len(stack)-1]
			stack = stack[:len(stack)-1]
			for _, p := range b.Preds {
				if !canReach[p] {
					canReach[p] = true
					stack = append(stack, p)
				}
			}
		}
	}
	stop := false
	env := map[*ssa.Phi]ssa.Value{}
	cur := func() pathAtoms { return pathAtoms{atoms, blocks, env} }
	// decide evaluates a branch condition in the finite domain of this path:
	// constants, boolean phis entered by a constant edge, nil tests of values
	// whose nil-ness an earlier atom (or a constant phi edge) fixed.
	decide := func(v ssa.Value) (known bool, val bool) {
		v, pol := unNot(v, true)
		rv := cur().resolve(v)
		if cb, isC := constBool(rv); isC {
			return true, cb == pol
		}
		if x, nn, isNil := nilTest(atom{rv, true}); isNil {
			if k, isN := cur().knownNil(x); k {
				// atom asserts (x != nil) == nn ; fact: x is nil == isN
				return true, (nn != isN) == pol
			}
		}
		return false, false
	}
	var dfs func(b *ssa.BasicBlock, from *ssa.BasicBlock)
	dfs = func(b *ssa.BasicBlock, from *ssa.BasicBlock) {
		if stop || !canReach[b] {
			return
		}
		blocks = append(blocks, b)
		defer func() { blocks = blocks[:len(blocks)-1] }()
		// bind phis
		var saved []struct {
			p   *ssa.Phi
			v   ssa.Value
			had bool
		}
		if from != nil {
			pi := -1
			for i, pr := range b.Preds {
				if pr == from {
					pi = i
				}
			}
			// parallel assignment: read all incoming values first
			var phis []*ssa.Phi
			var vals []ssa.Value
			for _, in := range b.Instrs {
				ph, isPhi := in.(*ssa.Phi)
				if !isPhi {
					break
				}
				if pi >= 0 {
					phis = append(phis, ph)
					vals = append(vals, cur().resolve(ph.Edges[pi]))
				}
			}
			for i, ph := range phis {
				old, had := env[ph]
				saved = append(saved, struct {
					p   *ssa.Phi
					v   ssa.Value
					had bool
				}{ph, old, had})
				env[ph] = vals[i]
			}
		}
		defer func() {
			for _, sv := range saved {
				if sv.had {
					env[sv.p] = sv.v
				} else {
					delete(env, sv.p)
				}
			}
		}()
		if b == to {
			n++
			if n > pathCap {
				ok = false
				stop = true
				return
			}
			envCopy := map[*ssa.Phi]ssa.Value{}
			for k, v := range env {
				envCopy[k] = v
			}
			if !visit(pathAtoms{append([]atom(nil), atoms...), append([]*ssa.BasicBlock(nil), blocks...), envCopy}) {
				stop = true
			}
			return
		}
		onPath[b] = true
		defer func() { onPath[b] = false }()
		i := ifOf(b)
		for si, s := range b.Succs {
			if onPath[s] {
				continue
			}
			if i != nil && b.Succs[0] != b.Succs[1] {
				v, p := unNot(i.Cond, si == 0)
				// prune infeasible paths in the finite domain: the same SSA
				// boolean cannot take both values on one path (SSA values are
				// immutable; acyclic paths never re-execute the definition)
				contra := false
				for _, a := range atoms {
					if a.v == v && a.pos != p {
						contra = true
						break
					}
				}
				if cb, isC := constBool(v); isC && cb != p {
					contra = true
				}
				if known, val := decide(i.Cond); known && val != (si == 0) {
					contra = true
				}
				if contra {
					continue
				}
				atoms = append(atoms, atom{v, p})
				dfs(s, b)
				atoms = atoms[:len(atoms)-1]
			} else {
				dfs(s, b)
			}
		}
	}
	if pred != nil {
		if i := ifOf(pred); i != nil && pred.Succs[0] != pred.Succs[1] {
			v, p := unNot(i.Cond, pred.Succs[0] == from)
			atoms = append(atoms, atom{v, p})
		}
	}
	dfs(from, pred)
	return n, ok
}

// hasAtom: some atom on the path satisfies pred.
func (p pathAtoms) has(pred func(a atom) bool) bool {
	for _, a := range p.atoms {
		if pred(a) {
			return true
		}
	}
	return false
}

// --- atom predicates ---

// isCmpConstString: atom asserts  (load of field key) ==/!= "" ; returns
// (matched, equalsEmpty).
func atomFieldEmpty(a atom, key string) (bool, bool) {
	b, ok := a.v.(*ssa.BinOp)
	if !ok || (b.Op != token.EQL && b.Op != token.NEQ) {
		return false, false
	}
	var f ssa.Value
	if s, ok := constString(b.Y); ok && s == "" {
		f = b.X
	} else if s, ok := constString(b.X); ok && s == "" {
		f = b.Y
	} else {
		return false, false
	}
	if !isFieldLoad(f, key) {
		return false, false
	}
	eq := b.Op == token.EQL
	if !a.pos {
		eq = !eq
	}
	return true, eq
}

// atomNilOf: atom asserts x ==/!= nil for x satisfying pred. returns (matched, isNil).
func atomNilOf(a atom, pred func(ssa.Value) bool) (bool, bool) {
	x, nn, ok := nilTest(a)
	if !ok || !pred(strip(x)) {
		return false, false
	}
	return true, !nn
}

// isResultOfCall: v is result #k of a call to one of names.
func isResultOfCall(v ssa.Value, k int, names ...string) bool {
	v = strip(v)
	if c, ok := v.(*ssa.Call); ok && k == 0 && c.Call.Signature().Results().Len() == 1 {
		return isCall(c, names...)
	}
	if c, idx, ok := extractOf(v); ok && idx == k {
		return isCall(c, names...)
	}
	return false
}
