package main

import (
	"go/token"
	"go/types"

	"golang.org/x/tools/go/ssa"
)

// C05 — combining partial aggregates; operands untouched.

func used(v ssa.Value) bool { return len(liveReferrers(v)) > 0 }

func ruleC05b(c *Ctx) {
	const rule = "C05.b"
	c.describe(rule, "flow: a combiner that ignores an operand cannot be a homomorphism — the merge closure of every registerAggregate call reads both 'current' and 'next'; every Expr.Merge implementation with a non-empty encoding reads both x and y")
	n := 0
	for _, fn := range c.P.ModFns {
		if pkgOf(fn) != "z/expr" {
			continue
		}
		for _, call := range callsTo(fn, "z/expr.registerAggregate") {
			a := call.Common().Args
			if len(a) != 3 {
				continue
			}
			n++
			name, _ := constString(a[0])
			var mf *ssa.Function
			switch v := strip(a[2]).(type) {
			case *ssa.MakeClosure:
				mf, _ = v.Fn.(*ssa.Function)
			case *ssa.Function:
				mf = v
			}
			if mf == nil || len(mf.Params) != 3 {
				c.undecided(rule, "aggregate "+name+" merge reads both operands", call.Pos(), "merge argument is not a function literal")
				continue
			}
			c.touch(mf)
			ok := used(mf.Params[1]) && used(mf.Params[2])
			c.check(rule, "aggregate "+name+" merge reads both operands", mf.Pos(), ok, "merge uses both current and next", "the merge function of aggregate "+name+" ignores one of its operands (current/next): merging two partial states cannot equal accumulating the raw points (e.g. COUNT merged as current+1)")
		}
	}
	c.floor(rule, "registerAggregate calls", n, 4)
	// Expr.Merge implementations
	exprN := c.P.Named("z/expr", "Expr")
	if exprN == nil {
		c.undecided(rule, "anchor z/expr.Expr", token.NoPos, "not found")
		return
	}
	m := 0
	for _, T := range implementors(c, modPath+"/expr", exprN.Underlying().(*types.Interface)) {
		mg := methodOf(c, T, "Merge")
		ew := methodOf(c, T, "EncodedWidth")
		if mg == nil {
			continue // promoted through embedding
		}
		m++
		c.touch(mg)
		zeroWidth := false
		if ew != nil {
			zeroWidth = true
			for _, in := range instrs(ew) {
				if r, ok := in.(*ssa.Return); ok {
					if v, isC := constInt(r.Results[0]); !isC || v != 0 {
						zeroWidth = false
					}
				}
			}
		}
		if zeroWidth {
			c.ok(rule, typeStr(T)+".Merge reads both operands", mg.Pos(), "EncodedWidth is the constant 0: there is no state to merge")
			continue
		}
		ok := len(mg.Params) == 4 && used(mg.Params[2]) && used(mg.Params[3])
		c.check(rule, typeStr(T)+".Merge reads both operands", mg.Pos(), ok, "Merge uses both x and y", typeStr(T)+".Merge ignores one of its operands x/y although the expression has state (EncodedWidth != 0)")
	}
	c.floor(rule, "Expr.Merge implementations", m, 9)
}

func ruleC05c(c *Ctx) {
	const rule = "C05.c"
	c.describe(rule, "reg: width-caching wrappers (structs in package expr with fields Width and Wrapped) store Width = wrapped.EncodedWidth() of the same value they store in Wrapped")
	n := 0
	for _, fn := range c.P.ModFns {
		if pkgOf(fn) != "z/expr" || fn.Name() == "DecodeMsgpack" {
			continue
		}
		// group field stores by base
		type pair struct{ width, wrapped *ssa.Store }
		byBase := map[ssa.Value]*pair{}
		for _, in := range instrs(fn) {
			st, ok := in.(*ssa.Store)
			if !ok {
				continue
			}
			fa, ok := st.Addr.(*ssa.FieldAddr)
			if !ok {
				continue
			}
			f := fieldVar(fa.X.Type(), fa.Field)
			if f == nil {
				continue
			}
			p := byBase[fa.X]
			if p == nil {
				p = &pair{}
				byBase[fa.X] = p
			}
			if f.Name() == "Width" {
				p.width = st
			}
			if f.Name() == "Wrapped" {
				p.wrapped = st
			}
		}
		for base, p := range byBase {
			if p.width == nil || p.wrapped == nil {
				continue
			}
			n++
			c.touch(fn)
			ok := false
			if call, isC := p.width.Val.(*ssa.Call); isC && calleeName(call) == "invoke (z/expr.Expr).EncodedWidth" {
				ok = sameValue(call.Call.Value, p.wrapped.Val)
			}
			c.check(rule, stableName(fn)+" builds "+typeStr(base.Type())+" with Width of its own Wrapped", p.width.Pos(), ok, "Width = Wrapped.EncodedWidth() of the value stored in Wrapped", "the cached Width is not the EncodedWidth() of the wrapped expression stored alongside it: byte offsets of every later field in a row are shifted")
		}
	}
	c.floor(rule, "width-caching constructors", n, 3)
}

func init() {
	register(&PropSpec{
		ID:          "C05",
		Explanation: "Decides three structural clauses: (1) operands are never modified — the purity obligations of the write-effect analysis on Sequence.Merge/SubMerge/Truncate, every Expr.Merge/Get and every SubMerge function (exactly the property's 'never modifies its operands'); (2) every combiner reads both operands (an operand-ignoring merge cannot be a homomorphism); (3) cached encoded widths agree with the wrapped expression. Added clauses: shift sub-mergers offset with the source's width; Merge returns a raw operand only when the other is empty; the expiry early-out of Merge tests the older operand's Until(). Further clauses: Update/Merge advance the buffer (= C01.h); SubMerge reads the receiver's bounds from Truncate's result.",
		NotDecided:  []string{"commutativity/associativity in value", "alignment arithmetic of Merge (lead/overlap/gap/tail), SubMerge index arithmetic, Truncate boundaries — these quantify over numeric values"},
		Assumptions: []string{"external pure-reader table follows documented contracts", "VTA call graph over-approximates dynamic calls"},
		Rules:       []func(*Ctx){func(c *Ctx) { rulePurity(c, "C05.a") }, ruleC05b, ruleC05c, func(c *Ctx) { ruleC05d(c, "C05.d") }, func(c *Ctx) { ruleC05e(c, "C05.e") }, func(c *Ctx) { ruleMergeExpiry(c, "C05.f") }, func(c *Ctx) { ruleExprAdvances(c, "C05.g") }, func(c *Ctx) { ruleC05h(c, "C05.h") }, func(c *Ctx) { ruleC05i(c, "C05.i") }},
	})
}

// ruleC05d: operand validity and layout opacity.
func ruleC05d(c *Ctx, rule string) {
	c.describe(rule, "dom/flow: aggregate.Merge invokes the registered merge function only when the operand passed as 'next' was set (the registered functions only handle an unset 'current'); Sequence.SubMerge's and Sequence.Merge's per-period loops never branch on the period's own bytes — the encoding of a period is expression-specific and only Expr.Merge / the SubMerge function may interpret it")
	if mg := c.need(rule, "(*z/expr.aggregate).Merge"); mg != nil {
		n := 0
		for _, call := range calls(mg) {
			if call.Common().StaticCallee() != nil || call.Common().IsInvoke() || !isFieldLoad(call.Common().Value, "z/expr.aggregate.merge") {
				continue
			}
			n++
			a := call.Common().Args
			// next = a[2]: result 0 of a load(); its wasSet (result 1 of the same call) must be a positive guard
			var ld *ssa.Call
			if ex, ok := strip(a[2]).(*ssa.Extract); ok {
				ld, _ = ex.Tuple.(*ssa.Call)
			}
			ok := false
			if ld != nil {
				for _, g := range guardsOf(call.Block()) {
					if ex, isEx := g.v.(*ssa.Extract); isEx && g.pos && ex.Index == 1 && ex.Tuple == ssa.Value(ld) {
						ok = true
					}
				}
			}
			c.check(rule, "aggregate.Merge: merge() only with a set 'next' operand", call.Pos(), ok, "guarded by the operand's wasSet flag", "the registered merge function can be invoked with an operand that was never set (value 0): MIN over positive / MAX over negative values fold in a bogus 0 and merging is no longer commutative")
		}
		c.floor(rule, "merge-function calls in aggregate.Merge", n, 1)
	}
	for _, name := range []string{"(z/encoding.Sequence).SubMerge", "(z/encoding.Sequence).Merge"} {
		fn := c.need(rule, name)
		if fn == nil {
			continue
		}
		bad := ""
		nIf := 0
		for _, l := range loopsOf(fn) {
			for b := range l.body {
				i := ifOf(b)
				if i == nil {
					continue
				}
				nIf++
				if dependsOn(i.Cond, func(v ssa.Value) bool {
					// a read of sequence bytes: element load of a byte slice, or a call receiving a byte slice of a sequence
					if u, ok := v.(*ssa.UnOp); ok && u.Op == token.MUL {
						if ia, ok := u.X.(*ssa.IndexAddr); ok && isByteSlice(ia.X.Type()) {
							return true
						}
					}
					if call, ok := v.(*ssa.Call); ok {
						cn := calleeName(call)
						if hasPrefixAny(cn, "(encoding/binary.bigEndian).Uint", "bytes.") {
							return true
						}
					}
					return false
				}) {
					bad = c.P.Pos(i.Pos())
				}
			}
		}
		c.check(rule, name+": the period loop does not interpret period bytes", fn.Pos(), bad == "", itoa(nIf)+" branch(es) in the loop, none on the bytes of a period", "a branch inside the per-period loop depends on the raw bytes of a period (at "+bad+"): the byte layout is expression-specific (e.g. left||right for binary expressions), so a generic 'is it empty' test drops periods of composite expressions")
	}
}

// ruleC05e: offsets into a sub-merge source use the source's width; a merge
// returns a raw operand only when the other one is empty.
func ruleC05e(c *Ctx, rule string) {
	c.describe(rule, "flow/dom: (*shift).SubMergers computes the byte offset into the source ('other') with the width of the source expression it reads (subs[i].EncodedWidth()), not with the wrapper's own cached width; Sequence.Merge returns one of its raw operands unchanged only when the other operand is empty — after the later/earlier swap only the swapped values may be returned")
	if sm := c.need(rule, "(*z/expr.shift).SubMergers"); sm != nil {
		n := 0
		for _, call := range callsTo(sm, "(*z/expr.shift).shiftedSubMerger") {
			n++
			a := call.Common().Args
			ok := false
			if len(a) >= 3 {
				if cv, isC := root(a[2]).(*ssa.Call); isC && calleeName(cv) == "invoke (z/expr.Expr).EncodedWidth" {
					// receiver: an element of the subs parameter
					ok = dependsOn(cv.Call.Value, func(v ssa.Value) bool {
						p, isP := v.(*ssa.Parameter)
						return isP && p.Parent() == sm && typeStr(p.Type()) == "[]z/expr.Expr"
					})
				}
			}
			c.check(rule, "shift: offsets into the source use the source's width", call.Pos(), ok, "shiftedSubMerger(sm, subs[i].EncodedWidth())", "the shifted offset into the source column is not computed with the width of the source expression (e.g. the wrapper's own cached width): SHIFT over a composite expression reads each component at the wrong period")
		}
		if n == 0 {
			c.bad(rule, "shift: offsets into the source use the source's width", sm.Pos(), "SubMergers no longer passes the source expression's width to the shifted sub-merger")
		}
	}
	if mg := c.need(rule, "(z/encoding.Sequence).Merge"); mg != nil && len(mg.Params) >= 2 {
		seq, other := mg.Params[0], mg.Params[1]
		n := 0
		for _, b := range mg.Blocks {
			r, ok := b.Instrs[len(b.Instrs)-1].(*ssa.Return)
			if !ok || len(r.Results) != 1 {
				continue
			}
			rv := r.Results[0]
			var otherOp *ssa.Parameter
			if rv == ssa.Value(seq) {
				otherOp = other
			} else if rv == ssa.Value(other) {
				otherOp = seq
			} else {
				continue
			}
			n++
			guard := false
			for _, g := range guardsOf(b) {
				if bo, isB := g.v.(*ssa.BinOp); isB && bo.Op == token.EQL && g.pos {
					if k, isK := constInt(bo.Y); isK && k == 0 {
						if cl, isC := bo.X.(*ssa.Call); isC && isCall(cl, "builtin len") && cl.Call.Args[0] == ssa.Value(otherOp) {
							guard = true
						}
					}
				}
			}
			c.check(rule, "Sequence.Merge returns a raw operand only if the other is empty", r.Pos(), guard, "guarded by len(other operand) == 0", "Merge returns its raw receiver/argument on a path where the other operand is not empty (after the later/earlier swap only sa/sb may be returned): whichever series happens to be the receiver wins, e.g. an expired on-disk series hides the new points of a key that reports again")
		}
		c.floor(rule, "raw-operand returns in Sequence.Merge", n, 2)
	}
}

// ruleC05h: SubMerge works on the truncated receiver.
func ruleC05h(c *Ctx, rule string) {
	c.describe(rule, "flow: in Sequence.SubMerge every time bound of the receiver that enters the offset arithmetic (Until, AsOf, NumPeriods) is read from the value Truncate returned, never from the receiver as passed in — a receiver that reaches past 'until' is cut back first, and offsets computed from its old Until() put fine periods into the wrong coarse periods")
	sm := c.need(rule, "(z/encoding.Sequence).SubMerge")
	if sm == nil || len(sm.Params) == 0 {
		return
	}
	recv := sm.Params[0]
	nTrunc := 0
	bad := ""
	for _, f := range withAnon(sm) {
		for _, call := range calls(f) {
			cn := calleeName(call)
			a := call.Common().Args
			if len(a) == 0 {
				continue
			}
			onRaw := strip(a[0]) == ssa.Value(recv)
			if fv, ok := strip(a[0]).(*ssa.FreeVar); ok && cellRoot(fv) == ssa.Value(recv) {
				onRaw = true
			}
			switch cn {
			case "(z/encoding.Sequence).Truncate":
				if onRaw {
					nTrunc++
				}
			case "(z/encoding.Sequence).Until", "(z/encoding.Sequence).AsOf", "(z/encoding.Sequence).NumPeriods":
				if onRaw {
					bad = cn + " at " + c.P.Pos(call.Pos())
				}
			}
		}
	}
	if nTrunc == 0 {
		c.undecided(rule, "SubMerge reads the receiver's bounds after truncating it", sm.Pos(), "no Truncate call on the receiver found")
		return
	}
	c.check(rule, "SubMerge reads the receiver's bounds after truncating it", sm.Pos(), bad == "", "Until/AsOf/NumPeriods are taken from Truncate's result", "a time bound of the untruncated receiver enters the offset arithmetic ("+bad+"): when the stored coarse series reaches past the roll-up's 'until', fine periods are merged into the wrong coarse periods or dropped, and the result depends on how the input was split")
}

// ruleC05i: a stored field that IS the conditional expression is merged alone.
func ruleC05i(c *Ctx, rule string) {
	c.describe(rule, "dom: in (*ifExpr).SubMergers an exact match of the IF expression among the source fields is exclusive — the wrapped expression's sub-mergers are consulted only when no exact match exists (the call of Wrapped.SubMergers is guarded by the 'matched' flag being false); merging both the stored IF field and the condition-guarded stored operand counts every matching point twice when a table stores X and IF(cond, X)")
	fn := c.need(rule, "(*z/expr.ifExpr).SubMergers")
	if fn == nil {
		return
	}
	n := 0
	for _, call := range calls(fn) {
		if calleeName(call) != "invoke (z/expr.Expr).SubMergers" {
			continue
		}
		n++
		guarded := false
		for _, g := range guardsOf(call.Block()) {
			if g.pos || typeStr(g.v.Type()) != "bool" {
				continue
			}
			hasT, hasF, other := false, false, false
			for _, leaf := range phiLeaves(g.v) {
				if b, isC := constBool(leaf); isC {
					if b {
						hasT = true
					} else {
						hasF = true
					}
				} else {
					other = true
				}
			}
			if hasT && hasF && !other {
				guarded = true
			}
		}
		c.check(rule, "ifExpr.SubMergers: the wrapped operand is used only without an exact match", call.Pos(), guarded, "Wrapped.SubMergers is reached only when matched == false", "the wrapped expression's sub-mergers are combined with an exact match of the IF itself: with both X and IF(cond, X) stored, re-aggregating the IF field merges the stored IF column and the guarded X column — every point that satisfies the condition is counted twice")
	}
	c.floor(rule, "Wrapped.SubMergers calls in ifExpr.SubMergers", n, 1)
}
