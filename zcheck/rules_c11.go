package main

import (
	"go/token"
	"go/types"
	"sort"
	"strings"

	"golang.org/x/tools/go/ssa"
)

// C11 — the distributed plan is equivalent to the local plan.

// textSearchCalls: results are positions found by searching query text.
var textSearchCalls = map[string]bool{
	"strings.Index": true, "strings.LastIndex": true, "strings.IndexByte": true, "strings.IndexAny": true,
	"(*regexp.Regexp).FindStringIndex": true, "(*regexp.Regexp).FindIndex": true, "(*regexp.Regexp).FindStringSubmatchIndex": true,
}

func ruleC11a(c *Ctx, rule string) {
	c.describe(rule, "flow (taint): SQL text that is sent to partitions or re-parsed is never produced by slicing/indexing a query string at positions obtained from text search (strings.Index, regexp Find*Index): a keyword inside a string literal or an IN-subquery moves the cut. Sources: results of the search calls; sinks: bounds of string slice/index expressions in package planner")
	type finding struct {
		fn   *ssa.Function
		key  string
		pos  token.Pos
		what string
	}
	var found []finding
	for _, fn := range c.P.ModFns {
		if pkgOf(fn) != "z/planner" {
			continue
		}
		searchOf := func(v ssa.Value) []*ssa.Call {
			var out []*ssa.Call
			dependsOn(v, func(x ssa.Value) bool {
				if call, ok := x.(*ssa.Call); ok && textSearchCalls[calleeName(call)] {
					out = append(out, call)
				}
				return false
			})
			return out
		}
		describeSearch := func(call *ssa.Call) string {
			cn := calleeName(call)
			lit := "<non-constant>"
			for _, a := range call.Call.Args {
				if s, ok := constString(a); ok {
					lit = "\"" + s + "\""
				}
			}
			if strings.Contains(cn, "regexp") {
				lit = "regexp"
				// the pattern literal, if the regexp was compiled from a constant format
				dependsOn(call.Call.Args[0], func(x ssa.Value) bool {
					if cc, ok := x.(*ssa.Call); ok && (isCall(cc, "regexp.Compile") || isCall(cc, "regexp.MustCompile")) {
						dependsOn(cc.Call.Args[0], func(y ssa.Value) bool {
							if s, ok := constString(y); ok {
								lit = "regexp \"" + s + "\""
							}
							return false
						})
					}
					return false
				})
			}
			return cn + " " + lit
		}
		baseKind := func(v ssa.Value) string {
			// which string is cut: follow only the sliced operand (not the bounds)
			mapped := false
			seen := map[ssa.Value]bool{}
			var walk func(v ssa.Value)
			walk = func(v ssa.Value) {
				if v == nil || seen[v] {
					return
				}
				seen[v] = true
				switch y := v.(type) {
				case *ssa.Slice:
					walk(y.X)
				case *ssa.Phi:
					for _, e := range y.Edges {
						walk(e)
					}
				case *ssa.Call:
					if isCall(y, "strings.ToLower") || isCall(y, "strings.ToUpper") {
						mapped = true
					}
				}
			}
			walk(v)
			if mapped {
				return "a case-mapped copy of the SQL"
			}
			return "the SQL text"
		}
		for _, in := range instrs(fn) {
			switch x := in.(type) {
			case *ssa.Slice:
				if bt, ok := x.X.Type().Underlying().(interface{ Info() int }); ok {
					_ = bt
				}
				if !isStringType(x.X.Type()) {
					continue
				}
				var srcs []*ssa.Call
				if x.Low != nil {
					srcs = append(srcs, searchOf(x.Low)...)
				}
				if x.High != nil {
					srcs = append(srcs, searchOf(x.High)...)
				}
				seen := map[*ssa.Call]bool{}
				for _, s := range srcs {
					if seen[s] {
						continue
					}
					seen[s] = true
					found = append(found, finding{fn, stableName(fn) + " slices " + baseKind(x.X) + " at " + describeSearch(s), x.Pos(), "slice"})
				}
			case *ssa.Index:
				if !isStringType(x.X.Type()) {
					continue
				}
				for _, s := range searchOf(x.Index) {
					found = append(found, finding{fn, stableName(fn) + " indexes " + baseKind(x.X) + " from " + describeSearch(s), x.Pos(), "index"})
				}
			case *ssa.Lookup:
				if !isStringType(x.X.Type()) {
					continue
				}
				for _, s := range searchOf(x.Index) {
					found = append(found, finding{fn, stableName(fn) + " indexes " + baseKind(x.X) + " from " + describeSearch(s), x.Pos(), "index"})
				}
			}
		}
	}
	sort.Slice(found, func(i, j int) bool { return found[i].key < found[j].key })
	seen := map[string]bool{}
	for _, f := range found {
		if seen[f.key] {
			continue
		}
		seen[f.key] = true
		c.touch(f.fn)
		c.bad(rule, f.key, f.pos, "SQL text is cut at a position found by text search: unsound for queries where the searched token also occurs inside a string literal, an identifier or an IN-subquery — the partitions receive a different (or unparsable) query than the one planned locally")
	}
	if len(found) == 0 {
		c.ok(rule, "no text-position surgery on SQL in package planner", token.NoPos, "partition queries are not built by cutting raw text")
	}
	// positive control: the taint source exists in the planner at all, or the rule has nothing to look at
	nSearch := 0
	for _, fn := range c.P.ModFns {
		if pkgOf(fn) == "z/planner" {
			for _, call := range calls(fn) {
				if textSearchCalls[calleeName(call)] {
					nSearch++
				}
			}
		}
	}
	c.Notes = append(c.Notes, rule+": "+itoa(nSearch)+" text-search call(s) in package planner, "+itoa(len(seen))+" distinct text cuts")
}

func isStringType(t interface{ String() string }) bool {
	return t.String() == "string"
}

func ruleC11b(c *Ctx, rule string) {
	c.describe(rule, "dom/pathstate: whole-query pushdown is chosen only when every output group is confined to one partition — Plan calls planClusterPushdown exactly under pushdownAllowed()==true; in pushdownAllowed every 'return true' lies on a path with (GroupByAll ∧ all parents group by all) or through the loop that returns false for a partition key missing from the group-by parameters; crosstab, sub-query ORDER/CROSSTAB/LIMIT/OFFSET and an unpartitioned table can never reach 'return true'; group-by parameters are collected with WalkOneToOneParams only and, below an enclosing group-by, only for names the enclosing level kept")
	pl := c.need(rule, "z/planner.Plan")
	if pl != nil {
		var pd []ssa.CallInstruction
		for _, f := range withHelpers(c.P, pl) {
			pd = append(pd, callsTo(f, "z/planner.planClusterPushdown")...)
		}
		c.floor(rule, "planClusterPushdown call in Plan", len(pd), 1)
		for _, call := range pd {
			f := call.Parent()
			all := true
			np, complete := pathsTo(f.Blocks[0], call.Block(), func(p pathAtoms) bool {
				ok := p.has(func(a atom) bool { return a.pos && isResultOfCall(a.v, 0, "z/planner.pushdownAllowed") })
				if !ok {
					all = false
				}
				return ok
			})
			c.check(rule, "Plan: pushdown only when pushdownAllowed", call.Pos(), all && complete && np > 0, "every path to planClusterPushdown has pushdownAllowed()==true", "the whole query can be pushed down to the partitions on a path where pushdownAllowed did not return true: groups spanning partitions come back as several partial rows / HAVING is applied to partial aggregates")
			// and only in cluster mode
			g := false
			for _, a := range guardsAcross(c.P, call.Block(), pl) {
				if x, nn, ok := nilTest(a); ok && nn && isFieldLoad(x, "z/planner.Opts.QueryCluster") {
					g = true
				}
			}
			c.check(rule, "Plan: cluster planning only with a QueryCluster function", call.Pos(), g, "guarded by opts.QueryCluster != nil", "cluster plans can be built without a cluster")
		}
	}
	pa := c.need(rule, "z/planner.pushdownAllowed")
	if pa == nil {
		return
	}
	// WalkParams must not be used
	bad := ""
	nWalk := 0
	scope := withHelpers(c.P, pa) // pushdownAllowed, its closures and its private helpers
	c.touch(scope...)
	for _, f := range scope {
		for _, call := range calls(f) {
			cn := calleeName(call)
			if cn == "invoke (github.com/getlantern/goexpr.Expr).WalkParams" {
				bad = c.P.Pos(call.Pos())
			}
			if cn == "invoke (github.com/getlantern/goexpr.Expr).WalkOneToOneParams" {
				nWalk++
			}
		}
	}
	c.check(rule, "pushdownAllowed: group-by parameters via WalkOneToOneParams only", pa.Pos(), bad == "" && nWalk >= 1, itoa(nWalk)+" WalkOneToOneParams calls, no WalkParams", "group-by parameters are collected with WalkParams (at "+bad+"): a non-injective function of the partition key (e.g. SUBSTR) would count as 'grouped by the partition key'")
	// closures: the MapUpdate is guarded by parentGroupByAll || parentGroupParams[name]
	nCl := 0
	for _, f := range scope {
		if f.Parent() == nil {
			continue
		}
		for _, in := range instrs(f) {
			mu, ok := in.(*ssa.MapUpdate)
			if !ok || typeStr(mu.Map.Type()) != "map[string]bool" {
				continue
			}
			nCl++
			all := true
			np, complete := pathsTo(f.Blocks[0], mu.Block(), func(p pathAtoms) bool {
				ok := p.has(func(a atom) bool {
					if !a.pos {
						return false
					}
					// parentGroupByAll (captured bool) or a lookup in the captured parent map
					if u, isU := a.v.(*ssa.UnOp); isU && u.Op == token.MUL {
						if _, isFV := u.X.(*ssa.FreeVar); isFV && typeStr(u.Type()) == "bool" {
							return true
						}
					}
					if _, isFV := a.v.(*ssa.FreeVar); isFV {
						return true
					}
					if lk, isL := a.v.(*ssa.Lookup); isL && typeStr(lk.X.Type()) == "map[string]bool" {
						return true
					}
					return false
				})
				if !ok {
					all = false
				}
				return ok
			})
			c.check(rule, "pushdownAllowed: a parameter counts only if the enclosing level kept it", mu.Pos(), all && complete && np > 0, "groupParams[param] = true only under parentGroupByAll || parentGroupParams[groupBy.Name]", "a nested level can re-introduce a partition key that an enclosing GROUP BY dropped: the query is pushed down although outer groups span partitions")
		}
	}
	c.floor(rule, "parameter-collecting closures in pushdownAllowed", nCl, 1)
	if nCl != nWalk {
		c.undecided(rule, "every WalkOneToOneParams callback records parameters under the enclosing-level guard", pa.Pos(), itoa(nWalk)+" WalkOneToOneParams call(s) but "+itoa(nCl)+" guarded parameter-recording closure(s)")
	}
	// return true blocks
	isTrueRet := func(b *ssa.BasicBlock) bool {
		if len(b.Instrs) == 0 {
			return false
		}
		r, ok := b.Instrs[len(b.Instrs)-1].(*ssa.Return)
		if !ok || len(r.Results) != 2 {
			return false
		}
		v, isC := constBool(r.Results[0])
		return isC && v
	}
	var trueRets []*ssa.BasicBlock
	for _, b := range pa.Blocks {
		if isTrueRet(b) {
			trueRets = append(trueRets, b)
		}
	}
	c.floor(rule, "'return true' exits of pushdownAllowed", len(trueRets), 1)
	// the partition-key loop: a range loop whose body looks up a map[string]bool and returns false on a miss
	var keyLoop *ssa.BasicBlock
	for _, l := range loopsOf(pa) {
		if !isRangeHeader(l.header) {
			continue
		}
		for b := range l.body {
			for _, in := range b.Instrs {
				if lk, ok := in.(*ssa.Lookup); ok && typeStr(lk.X.Type()) == "map[string]bool" {
					// miss -> return false
					for _, ci := range findIfs(pa, func(v ssa.Value) bool { return v == ssa.Value(lk) }) {
						s := ci.succFor(false)
						falseOnly := true
						for bb := range reach([]*ssa.BasicBlock{s}, blockSet{l.header: true}, nil) {
							if isTrueRet(bb) {
								falseOnly = false
							}
						}
						if falseOnly && !reach([]*ssa.BasicBlock{s}, nil, nil)[l.header] {
							keyLoop = l.header
						}
					}
				}
			}
		}
	}
	c.check(rule, "pushdownAllowed: a missing partition key forbids pushdown", pa.Pos(), keyLoop != nil, "the loop over the table's partition keys returns false when a key is not among the group-by parameters", "no loop that rejects pushdown when a partition key is missing from the group-by parameters")
	for _, b := range trueRets {
		all := true
		badPath := ""
		np, complete := pathsTo(pa.Blocks[0], b, func(p pathAtoms) bool {
			viaLoop := false
			for _, pb := range p.blocks {
				if pb == keyLoop {
					viaLoop = true
				}
			}
			allGrouped := p.has(func(a atom) bool { return a.pos && isFieldLoad(a.v, "z/sql.Query.GroupByAll") }) &&
				p.has(func(a atom) bool {
					if !a.pos || typeStr(a.v.Type()) != "bool" {
						return false
					}
					if _, isPhi := a.v.(*ssa.Phi); isPhi {
						return true
					}
					if u, isU := a.v.(*ssa.UnOp); isU && u.Op == token.MUL {
						_, isAlloc := u.X.(*ssa.Alloc)
						return isAlloc // the captured parentGroupByAll flag
					}
					return false
				})
			if !(viaLoop || allGrouped) {
				all = false
				var bs []string
				for _, pb := range p.blocks {
					bs = append(bs, "b"+itoa(pb.Index))
				}
				badPath = strings.Join(bs, ">")
			}
			return all
		})
		c.check(rule, "pushdownAllowed: 'return true' only for partition-confined groups", b.Instrs[len(b.Instrs)-1].Pos(), all && complete && np > 0, "every path groups by everything at all levels or passes the partition-key loop", "a path reaches 'return true' without establishing that each output group lives in one partition: "+badPath)
	}
	// forbidding conditions cannot reach return true
	forbid := []struct {
		what string
		pred func(v ssa.Value) (bool, bool) // matched, the forbidding polarity
	}{
		{"crosstab", func(v ssa.Value) (bool, bool) {
			x, nn, ok := nilTest(atom{v, true})
			return ok && (isFieldLoad(x, "z/sql.Query.Crosstab")), nn
		}},
		{"sub-query ORDER BY", func(v ssa.Value) (bool, bool) {
			b, ok := v.(*ssa.BinOp)
			return ok && b.Op == token.GTR && isCallValue(b.X, "builtin len") && dependsOn(b.X, func(x ssa.Value) bool { return isFieldLoad(x, "z/sql.Query.OrderBy") }), true
		}},
		{"sub-query LIMIT", func(v ssa.Value) (bool, bool) {
			b, ok := v.(*ssa.BinOp)
			return ok && b.Op == token.GTR && isFieldLoad(b.X, "z/sql.Query.Limit"), true
		}},
		{"sub-query OFFSET", func(v ssa.Value) (bool, bool) {
			b, ok := v.(*ssa.BinOp)
			return ok && b.Op == token.GTR && isFieldLoad(b.X, "z/sql.Query.Offset"), true
		}},
		{"unpartitioned table", func(v ssa.Value) (bool, bool) {
			b, ok := v.(*ssa.BinOp)
			if !ok || b.Op != token.EQL {
				return false, false
			}
			k, isK := constInt(b.Y)
			return isK && k == 0 && isCallValue(b.X, "builtin len") && dependsOn(b.X, func(x ssa.Value) bool {
				cl, ok := x.(*ssa.Call)
				return ok && cl.Call.IsInvoke() && cl.Call.Method.Name() == "GetPartitionBy"
			}), true
		}},
	}
	for _, fb := range forbid {
		n := 0
		for _, b := range pa.Blocks {
			i := ifOf(b)
			if i == nil {
				continue
			}
			v, pol := unNot(i.Cond, true)
			m, fpol := fb.pred(v)
			if !m {
				continue
			}
			n++
			ci := condIf{i, pol, v}
			s := ci.succFor(fpol)
			leak := false
			for bb := range reach([]*ssa.BasicBlock{s}, nil, nil) {
				if isTrueRet(bb) {
					leak = true
				}
			}
			c.check(rule, "pushdownAllowed: "+fb.what+" forbids pushdown", i.Pos(), !leak, "this outcome cannot reach 'return true'", "a query with "+fb.what+" can be pushed down whole")
		}
		if n == 0 {
			c.bad(rule, "pushdownAllowed: "+fb.what+" forbids pushdown", pa.Pos(), "no test for "+fb.what+" found in pushdownAllowed")
		}
	}
	// the sub-query clauses are tested at EVERY nested level: the tests sit in the
	// loop over the FROM-subquery chain, on the loop's own query variable, and no
	// 'return true' is reached from the loop header around them (except for the
	// outermost query itself)
	var levelLoop *loopInfo
	var cur *ssa.Phi
	for _, l := range loopsOf(pa) {
		l := l
		for _, in := range l.header.Instrs {
			if ph, ok := in.(*ssa.Phi); ok && typeStr(ph.Type()) == "*z/sql.Query" {
				if levelLoop == nil || len(l.body) > len(levelLoop.body) {
					levelLoop, cur = &l, ph
				}
			}
		}
	}
	if levelLoop == nil {
		c.undecided(rule, "pushdownAllowed: loop over the FROM-subquery levels", pa.Pos(), "no loop with a *sql.Query induction variable found")
		return
	}
	onCur := func(x ssa.Value) bool {
		base, _, ok := fieldOf(x)
		return ok && strip(base) == ssa.Value(cur)
	}
	for _, fb := range forbid {
		if !strings.HasPrefix(fb.what, "sub-query") {
			continue
		}
		var tests []*ssa.BasicBlock
		for _, b := range pa.Blocks {
			i := ifOf(b)
			if i == nil || !levelLoop.body[b] {
				continue
			}
			v, _ := unNot(i.Cond, true)
			if m, _ := fb.pred(v); !m {
				continue
			}
			if dependsOn(v, onCur) {
				tests = append(tests, b)
			}
		}
		if len(tests) == 0 {
			c.bad(rule, "pushdownAllowed: "+fb.what+" is tested at every nested level", pa.Pos(), "the test for "+fb.what+" is not applied to the loop's query variable inside the loop over the FROM-subquery levels: a clause two or more levels down is pushed to the partitions, each of which applies it to its own rows")
			continue
		}
		okAll := true
		badPath := ""
		for _, tr := range trueRets {
			_, complete := pathsTo(levelLoop.header, tr, func(p pathAtoms) bool {
				for _, pb := range p.blocks {
					for _, tb := range tests {
						if pb == tb {
							return true
						}
					}
				}
				// the outermost query is exempt: current == query on this path
				if p.has(func(a atom) bool {
					b, ok := a.v.(*ssa.BinOp)
					if !ok || (b.Op != token.EQL && b.Op != token.NEQ) {
						return false
					}
					if !(strip(b.X) == ssa.Value(cur) || strip(b.Y) == ssa.Value(cur)) {
						return false
					}
					eq := b.Op == token.EQL
					if !a.pos {
						eq = !eq
					}
					other := b.X
					if strip(b.X) == ssa.Value(cur) {
						other = b.Y
					}
					_, isParam := strip(other).(*ssa.Parameter)
					return eq && isParam
				}) {
					return true
				}
				okAll = false
				var bs []string
				for _, pb := range p.blocks {
					bs = append(bs, "b"+itoa(pb.Index))
				}
				badPath = strings.Join(bs, ">")
				return false
			})
			if !complete && okAll {
				okAll = false
				badPath = "path enumeration incomplete"
			}
		}
		c.check(rule, "pushdownAllowed: "+fb.what+" is tested at every nested level", tests[0].Instrs[len(tests[0].Instrs)-1].Pos(), okAll, "every path from the level loop's header to 'return true' passes the test (or is the outermost query)", "a nested level can reach 'return true' without its "+fb.what+" having been tested: "+badPath)
	}
}

func init() {
	register(&PropSpec{
		ID:          "C11",
		Explanation: "Decides three structural clauses: (a) SQL sent to partitions is never built by cutting raw text at positions found by keyword search (taint from search results to slice bounds; the existing instances are recorded known findings, any new cut is a violation); (b) the pushdown predicate's shape — pushdown only under pushdownAllowed, which returns true only for partition-confined groups and never with crosstab / sub-query order-limit-offset / unpartitioned tables, collecting parameters injectively and level by level; (c) every cluster plan re-applies ORDER/LIMIT/OFFSET on the leader and HAVING after the leader-side group-by. Added clauses: sub-query ORDER/LIMIT/OFFSET tested on the loop's query variable at every level; top-level OFFSET (known finding K6); WalkOneToOneParams implementations that report parameters are injective operators (known finding K7: goexpr LEN); per-partition/per-sub-query goroutines bind per-iteration values. Further clauses: the leader of a non-pushdown plan resets AsOf/Until before its group-by; the sub-query field source always forwards _having (= C08.i).",
		NotDecided:  []string{"semantic equivalence of the two plans per query (translation validation by execution — another family)", "correctness of the partition-side pre-aggregation fields"},
		Assumptions: []string{"goexpr.WalkOneToOneParams reports only parameters the expression is injective in"},
		Rules: []func(*Ctx){func(c *Ctx) { ruleC11a(c, "C11.a") }, func(c *Ctx) { ruleC11b(c, "C11.b") }, func(c *Ctx) {
			c.describe("C11.c", "flow: cluster plans return through addOrderLimitOffset with HAVING in between (see C09.c, C08.b)")
			ruleC09c(c, "C11.c")
			ruleC08b(c, "C11.c")
		}, func(c *Ctx) { ruleC11d(c, "C11.d") }, func(c *Ctx) { ruleC11e(c, "C11.e") }, func(c *Ctx) { ruleC09e(c, "C11.f") }, func(c *Ctx) { ruleC11g(c, "C11.g") }, func(c *Ctx) { ruleLoopCapture(c, "C11.h", "z", "z/planner") }, func(c *Ctx) { ruleC11i(c, "C11.i") }, func(c *Ctx) { ruleC08i(c, "C11.j") }, func(c *Ctx) { ruleC11k(c, "C11.k") }},
	})
}

// ruleC11d: the partition-side plan computes every named group-by dimension.
func ruleC11d(c *Ctx, rule string) {
	c.describe(rule, "dom: a query that names group-by dimensions (GROUP BY …, expr AS name) is planned with a group-by stage even when it also groups by * — otherwise derived dimensions such as the _crosstab column that planClusterNonPushdown adds to partition queries are never computed")
	pl := c.need(rule, "z/planner.planLocal")
	if pl == nil {
		return
	}
	gb := callsTo(pl, "z/planner.addGroupBy")
	ft := callsTo(pl, "z/core.Flatten")
	if len(gb) != 1 || len(ft) != 1 {
		c.undecided(rule, "planLocal group-by", pl.Pos(), "expected one addGroupBy and one Flatten call")
		return
	}
	isNamed := func(v ssa.Value) bool {
		b, ok := v.(*ssa.BinOp)
		if !ok {
			return false
		}
		if (b.Op == token.GTR || b.Op == token.NEQ) && isCallValue(b.X, "builtin len") {
			if k, isK := constInt(b.Y); isK && k == 0 {
				return dependsOn(b.X, func(x ssa.Value) bool { return isFieldLoad(x, "z/sql.Query.GroupBy") })
			}
		}
		return false
	}
	found := false
	for _, ci := range findIfs(pl, isNamed) {
		if reach([]*ssa.BasicBlock{ci.i.Block()}, nil, nil)[gb[0].Block()] {
			found = true
		}
	}
	for _, in := range instrs(pl) {
		if ph, ok := in.(*ssa.Phi); ok {
			for _, e := range ph.Edges {
				if isNamed(e) {
					found = true
				}
			}
		}
	}
	if found {
		c.ok(rule, "planLocal: named group-by dimensions force the group-by", gb[0].Pos(), "len(query.GroupBy) > 0 is among the conditions that add the group-by stage")
	} else {
		c.bad(rule, "planLocal: named group-by dimensions force the group-by", gb[0].Pos(), "a query with GROUP BY *, <expr> AS <name> is planned without a group-by stage (needsGroupBy ignores len(query.GroupBy)): on a cluster the partitions return rows without the derived dimension (e.g. _crosstab), so the leader's result differs from the local plan (and, before da74b7a, panicked)")
	}
}

// ruleC11e: nested IN-subqueries forbid whole-query pushdown.
func ruleC11e(c *Ctx, rule string) {
	c.describe(rule, "dom: pushdownAllowed inspects the WHERE of every nested level for IN-subqueries (WalkLists + comma-ok assertion to *sql.SubQuery) and that outcome cannot reach 'return true' — only the outermost query's sub-query results are shipped to the partitions")
	pa := c.need(rule, "z/planner.pushdownAllowed")
	if pa == nil {
		return
	}
	var walk ssa.CallInstruction
	for _, f := range withHelpers(c.P, pa) {
		for _, call := range calls(f) {
			if calleeName(call) == "invoke (github.com/getlantern/goexpr.Expr).WalkLists" && isFieldLoad(resolveVal(c.P, call.Common().Value, pa), "z/sql.Query.Where") {
				walk = call
			}
		}
	}
	if walk == nil {
		c.bad(rule, "pushdownAllowed: nested IN-subqueries forbid pushdown", pa.Pos(), "pushdownAllowed never looks for IN-subqueries in the WHERE of nested FROM-subqueries: such a query is pushed down whole and each partition evaluates the IN-subquery against its own rows only")
		return
	}
	// the callback detects *sql.SubQuery and sets a captured flag
	var flag ssa.Value
	if mc, ok := walk.Common().Args[0].(*ssa.MakeClosure); ok {
		cb := mc.Fn.(*ssa.Function)
		c.touch(cb)
		detects := false
		for _, in := range instrs(cb) {
			if ta, isTA := in.(*ssa.TypeAssert); isTA && ta.CommaOk && typeStr(ta.AssertedType) == "*z/sql.SubQuery" {
				detects = true
			}
			if st, isSt := in.(*ssa.Store); isSt {
				if b, isC := constBool(st.Val); isC && b {
					flag = cellRoot(st.Addr)
				}
			}
		}
		if !detects {
			flag = nil
		}
	}
	isFlagLoad := func(v ssa.Value) bool {
		u, isU := v.(*ssa.UnOp)
		return isU && u.Op == token.MUL && cellRoot(u.X) == flag
	}
	// where the outcome is tested in pushdownAllowed: a load of the flag, or — when
	// the walk lives in a helper — the result of that helper, which returns the flag
	host := walk.Parent()
	for host.Parent() != nil {
		host = host.Parent()
	}
	site := walk.Block()
	isOutcome := isFlagLoad
	if host != pa && flag != nil {
		retsFlag := true
		for _, in := range instrs(host) {
			if r, isR := in.(*ssa.Return); isR && (len(r.Results) != 1 || !isFlagLoad(r.Results[0])) {
				retsFlag = false
			}
		}
		if !retsFlag {
			flag = nil
		}
		isOutcome = func(v ssa.Value) bool {
			call, isC := v.(*ssa.Call)
			return isC && call.Call.StaticCallee() == host
		}
		for _, call := range calls(pa) {
			if call.Common().StaticCallee() == host {
				site = call.Block()
			}
		}
	}
	ok := false
	if flag != nil {
		for _, ci := range findIfs(pa, isOutcome) {
			leak := false
			for bb := range reach([]*ssa.BasicBlock{ci.succFor(true)}, nil, nil) {
				if len(bb.Instrs) > 0 {
					if r, isR := bb.Instrs[len(bb.Instrs)-1].(*ssa.Return); isR && len(r.Results) == 2 {
						if v, isC := constBool(r.Results[0]); isC && v {
							leak = true
						}
					}
				}
			}
			if !leak {
				ok = true
			}
		}
	}
	// it must apply to nested levels (not only the outermost): the walk is inside the loop over FromSubQuery levels
	inLoop := site.Parent() == pa && len(loopsContaining(pa, site)) > 0
	c.check(rule, "pushdownAllowed: nested IN-subqueries forbid pushdown", walk.Pos(), ok && inLoop, "a nested level whose WHERE contains a *sql.SubQuery returns false", "the nested IN-subquery test does not prevent 'return true'")
}

// ruleC11g: pushdownAllowed trusts WalkOneToOneParams to report only parameters
// the expression is injective in. Every implementation that forwards to its
// operands (or reports a parameter) must therefore belong to an operator that
// really is one-to-one.
func ruleC11g(c *Ctx, rule string) {
	c.describe(rule, "reg: the implementations of goexpr.Expr.WalkOneToOneParams (in the module and in the goexpr dependency it is built against) that report or forward parameters belong to injective operators only — the reviewed table is {param, P(...) marker, NOT, ARRAY}; every other operator must stop the walk")
	injective := map[string]string{
		"github.com/getlantern/goexpr.param":     "a parameter is one-to-one in itself",
		"github.com/getlantern/goexpr.oneToOne":  "P(...): the schema author's explicit assertion",
		"github.com/getlantern/goexpr.notExpr":   "boolean negation is a bijection",
		"github.com/getlantern/goexpr.ArrayExpr": "the tuple of its items determines every item",
	}
	n := 0
	var names []string
	byName := map[string]*ssa.Function{}
	for fn := range c.P.AllFns {
		if fn.Name() != "WalkOneToOneParams" || fn.Signature.Recv() == nil || len(fn.Blocks) == 0 || fn.Synthetic != "" {
			continue
		}
		t := fn.Signature.Recv().Type()
		if p, ok := t.(*types.Pointer); ok {
			t = p.Elem()
		}
		nm := types.TypeString(t, nil)
		if _, dup := byName[nm]; !dup {
			byName[nm] = fn
			names = append(names, nm)
		}
	}
	sort.Strings(names)
	for _, nm := range names {
		fn := byName[nm]
		n++
		c.touch(fn)
		forwards := false
		for _, f := range withAnon(fn) {
			for _, call := range calls(f) {
				cn := calleeName(call)
				if strings.HasSuffix(cn, ".WalkOneToOneParams") || strings.HasSuffix(cn, ".WalkParams") {
					forwards = true
				}
				if len(fn.Params) > 1 && isCallOfParam(call, fn.Params[1]) {
					forwards = true
				}
			}
		}
		if !forwards {
			c.ok(rule, short(nm)+" stops the one-to-one walk", fn.Pos(), "reports nothing")
			continue
		}
		why, ok := injective[nm]
		c.check(rule, short(nm)+" is one-to-one in the parameters it reports", fn.Pos(), ok, why, "operator "+short(nm)+" reports its operands' parameters as one-to-one but is not in the reviewed table of injective operators: GROUP BY <this operator>(partition key) counts as grouping by the partition key, the query is pushed down whole and groups spanning partitions come back as several partial rows")
	}
	c.floor(rule, "WalkOneToOneParams implementations", n, 15)
}

// ruleC11i: the leader of a non-pushdown plan re-groups what the partitions
// already windowed.
func ruleC11i(c *Ctx, rule string) {
	c.describe(rule, "dom: in planClusterNonPushdown the query's AsOf and Until are reset to the zero time (and Resolution to 0) before the leader-side group-by is added — the partitions already applied the window, rounded to the table resolution by asOfUntilFor; a leader that windows again with the raw, unrounded ASOF/UNTIL shifts its time grid against the local plan")
	fn := c.need(rule, "z/planner.planClusterNonPushdown")
	if fn == nil {
		return
	}
	gb := callsTo(fn, "z/planner.addGroupBy")
	if len(gb) != 1 {
		c.undecided(rule, "planClusterNonPushdown: window reset before the leader group-by", fn.Pos(), "expected one addGroupBy call")
		return
	}
	for _, fld := range []string{"AsOf", "Until"} {
		ok := false
		for _, st := range fieldStores(fn, "z/sql.Query."+fld) {
			if isZeroTime(st.Val) && instrDominates(st, gb[0].(ssa.Instruction)) {
				ok = true
			}
		}
		c.check(rule, "planClusterNonPushdown: query."+fld+" is reset before the leader group-by", gb[0].Pos(), ok, "query."+fld+" = time.Time{} dominates addGroupBy", "the leader-side group-by of a non-pushdown plan keeps the query's raw "+fld+": with an absolute timestamp off the resolution grid the leader's periods are shifted against the partitions' (and the local plan's) rounded window")
	}
}

// ruleC11k: the leader ships exactly one result set per IN-subquery, in order.
func ruleC11k(c *Ctx, rule string) {
	c.describe(rule, "dom: the function returned by planner.planSubQueries collects one result per IN-subquery unconditionally — the append that builds the returned [][]interface{} inside the receive loop is guarded by nothing but the loop's own exit test. The list is shipped positionally to the partitions, which use it only when its length equals the number of IN-subqueries; a skipped (e.g. empty) entry makes every partition re-run the subqueries against its own rows")
	top := c.need(rule, "z/planner.planSubQueries")
	if top == nil {
		return
	}
	n := 0
	for _, fn := range withAnon(top) {
		if fn == top || fn.Signature.Results().Len() != 2 || typeStr(fn.Signature.Results().At(0).Type()) != "[][]interface{}" {
			continue
		}
		for _, call := range calls(fn) {
			if calleeName(call) != "builtin append" || typeStr(call.Value().Type()) != "[][]interface{}" {
				continue
			}
			l := innermostLoop(fn, call.Block())
			if l == nil {
				continue
			}
			n++
			bad := ""
			for b := range l.body {
				i := ifOf(b)
				if i == nil || b == l.header {
					continue
				}
				for k, br := range []bool{true, false} {
					if edgeDominates(i, br, call.Block()) && l.body[b.Succs[1-k]] && !reach([]*ssa.BasicBlock{b.Succs[1-k]}, blockSet{l.header: true}, nil)[call.Block()] {
						bad = c.P.Pos(i.Cond.Pos())
					}
				}
			}
			c.check(rule, "planSubQueries: one shipped result set per IN-subquery", call.Pos(), bad == "", "the append in the collecting loop is unconditional", "the collecting loop skips a subquery's result set under a condition ("+bad+"): the shipped list gets shorter than the number of IN-subqueries (or shifts position), the partitions discard it and evaluate the IN-subqueries against their own rows only — rows whose match lives on another partition disappear from the cluster result")
		}
	}
	c.floor(rule, "appends building the shipped sub-query results", n, 1)
}
