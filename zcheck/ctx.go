package main

import (
	"encoding/json"
	"fmt"
	"go/token"
	"os"
	"path/filepath"
	"sort"
	"strings"
	"time"

	"golang.org/x/tools/go/ssa"
)

type Verdict string

const (
	OK        Verdict = "OK"
	VIOLATION Verdict = "VIOLATION"
	UNDECIDED Verdict = "UNDECIDED" // counts as failure: the rule could not decide
	KNOWN     Verdict = "KNOWN-FINDING"
	BROKEN    Verdict = "CHECKER-DEFECT" // the checker itself is unsound/insensitive here (thorough tier); never a VIOLATION of zenodb
)

// Obligation is one evaluated rule instance.
type Obligation struct {
	Rule       string   `json:"rule"`
	Instance   string   `json:"instance"` // stable construct key: no line numbers
	Pos        string   `json:"pos"`
	Verdict    Verdict  `json:"verdict"`
	Reason     string   `json:"reason"`
	Path       []string `json:"path,omitempty"`
	Nontrivial bool     `json:"nontrivial"`
}

type KnownFinding struct {
	Property string `json:"property"`
	Rule     string `json:"rule"`
	Key      string `json:"key"`    // matched against Obligation.Instance (exact)
	Status   string `json:"status"` // "known" | "fixed"
	Commit   string `json:"commit,omitempty"`
	What     string `json:"what"`
	Input    string `json:"failing_input,omitempty"`
}

// Ctx collects the obligations of one property run.
type Ctx struct {
	P        *Prog
	Prop     string
	Tier     string
	Only     string
	Obs      []Obligation
	Known    []KnownFinding
	fnsSeen  map[*ssa.Function]bool
	Notes    []string
	ruleDesc map[string]string
	counters map[string]int // per-run ordinals for instance keys
}

func newCtx(P *Prog, prop, tier string) *Ctx {
	return &Ctx{P: P, Prop: prop, Tier: tier, fnsSeen: map[*ssa.Function]bool{}, ruleDesc: map[string]string{}}
}

func (c *Ctx) loadKnown(path string) error {
	b, err := os.ReadFile(path)
	if err != nil {
		if os.IsNotExist(err) {
			return nil
		}
		return err
	}
	var f struct {
		Findings []KnownFinding `json:"findings"`
	}
	if err := json.Unmarshal(b, &f); err != nil {
		return err
	}
	c.Known = f.Findings
	return nil
}

// touch records a function as analysed (for the evidence).
func (c *Ctx) touch(fns ...*ssa.Function) {
	for _, f := range fns {
		if f != nil {
			c.fnsSeen[f] = true
		}
	}
}

func (c *Ctx) describe(rule, desc string) { c.ruleDesc[rule] = desc }

func (c *Ctx) add(rule, inst string, pos token.Pos, v Verdict, reason string, path ...string) {
	if c.Only != "" && !strings.HasPrefix(rule+"/"+inst, c.Only) && rule != c.Only {
		return
	}
	o := Obligation{Rule: rule, Instance: inst, Pos: c.P.Pos(pos), Verdict: v, Reason: reason, Path: path, Nontrivial: true}
	if v == VIOLATION {
		for _, k := range c.Known {
			if k.Status == "known" && k.Property == c.Prop && k.Rule == rule && k.Key == inst {
				o.Verdict = KNOWN
				o.Reason = reason + " [known finding: " + k.What + "]"
			}
		}
	}
	c.Obs = append(c.Obs, o)
}

func (c *Ctx) ok(rule, inst string, pos token.Pos, reason string) {
	c.add(rule, inst, pos, OK, reason)
}
func (c *Ctx) bad(rule, inst string, pos token.Pos, reason string, path ...string) {
	c.add(rule, inst, pos, VIOLATION, reason, path...)
}
func (c *Ctx) undecided(rule, inst string, pos token.Pos, reason string) {
	c.add(rule, inst, pos, UNDECIDED, reason)
}

// check is a convenience: cond true -> OK(okReason) else VIOLATION(badReason).
func (c *Ctx) check(rule, inst string, pos token.Pos, cond bool, okReason, badReason string) bool {
	if cond {
		c.ok(rule, inst, pos, okReason)
	} else {
		c.bad(rule, inst, pos, badReason)
	}
	return cond
}

// need resolves a function by name; if it is missing an UNDECIDED obligation is
// recorded (a rule whose anchor vanished must fail, not pass vacuously).
func (c *Ctx) need(rule, name string) *ssa.Function {
	f := c.P.Func(name)
	if f == nil {
		c.undecided(rule, "anchor "+name, token.NoPos, "anchor function "+name+" does not resolve in the current tree; the rule cannot be evaluated (update the rule table if the code was legitimately refactored)")
		return nil
	}
	c.touch(f)
	return f
}

// floor records a failure if fewer instances than confirmed by hand were found.
func (c *Ctx) floor(rule, what string, got, min int) {
	if got < min {
		c.undecided(rule, "floor "+what, token.NoPos, fmt.Sprintf("only %d instance(s) of %s found, the confirmed floor is %d: the rule would pass vacuously", got, what, min))
	}
}

type evidence struct {
	PropertyID  string                 `json:"property_id"`
	Tier        string                 `json:"tier"`
	Seed        int                    `json:"seed"`
	Level       string                 `json:"level"`
	Coverage    map[string]interface{} `json:"coverage"`
	Assumptions []string               `json:"assumptions"`
	WallS       float64                `json:"wall_s"`
	Violations  int                    `json:"violations"`
}

// finish prints the report, writes evidence and replay files, returns exit code.
func (c *Ctx) finish(verifDir string, start time.Time, seed int, spec *PropSpec, extra map[string]interface{}) int {
	sort.SliceStable(c.Obs, func(i, j int) bool {
		if c.Obs[i].Rule != c.Obs[j].Rule {
			return c.Obs[i].Rule < c.Obs[j].Rule
		}
		return c.Obs[i].Instance < c.Obs[j].Instance
	})
	nViol, nOK, nKnown := 0, 0, 0
	distinct := map[string]bool{}
	var samples []interface{}
	perRule := map[string]int{}
	for _, o := range c.Obs {
		fmt.Printf("%-13s %-7s %s  [%s]  %s\n", o.Verdict, o.Rule, o.Instance, o.Pos, o.Reason)
		for _, p := range o.Path {
			fmt.Printf("                  | %s\n", p)
		}
		perRule[o.Rule]++
		switch o.Verdict {
		case OK:
			nOK++
		case KNOWN:
			nKnown++
		default:
			nViol++
		}
		if o.Nontrivial {
			distinct[o.Rule+"|"+o.Instance] = true
		}
	}
	// samples: first obligation of each rule plus all non-OK
	seenRule := map[string]int{}
	for _, o := range c.Obs {
		if o.Verdict != OK || seenRule[o.Rule] < 2 {
			samples = append(samples, o)
			seenRule[o.Rule]++
		}
	}
	code := 0
	if len(c.Obs) == 0 {
		fmt.Printf("ERROR: no obligations were evaluated for %s\n", c.Prop)
		code = 2
	}
	os.MkdirAll(filepath.Join(verifDir, "replay"), 0o755)
	n := 0
	for _, o := range c.Obs {
		switch o.Verdict {
		case KNOWN:
			fmt.Printf("KNOWN-FINDING: property=%s %s %s at %s: %s\n", c.Prop, o.Rule, o.Instance, o.Pos, o.Reason)
		case BROKEN:
			fmt.Printf("CHECKER-DEFECT: property=%s %s: %s\n", c.Prop, o.Instance, o.Reason)
			if code == 0 {
				code = 2
			}
		case VIOLATION, UNDECIDED:
			n++
			rp := filepath.Join(verifDir, "replay", fmt.Sprintf("%s-%d.txt", c.Prop, n))
			var sb strings.Builder
			fmt.Fprintf(&sb, "property=%s\nrule=%s\ninstance=%s\nverdict=%s\npos=%s\nreason=%s\n", c.Prop, o.Rule, o.Instance, o.Verdict, o.Pos, o.Reason)
			for _, p := range o.Path {
				fmt.Fprintf(&sb, "path: %s\n", p)
			}
			fmt.Fprintf(&sb, "replay: /verif/bin/zcheck -p %s -only %q\n", c.Prop, o.Rule)
			os.WriteFile(rp, []byte(sb.String()), 0o644)
			fmt.Printf("VIOLATION property=%s replay=%s\n", c.Prop, rp)
			code = 1
		}
	}
	var fnNames []string
	nBlocks, nInstr := 0, 0
	for f := range c.fnsSeen {
		fnNames = append(fnNames, short(f.String()))
		nBlocks += len(f.Blocks)
		for _, b := range f.Blocks {
			nInstr += len(b.Instrs)
		}
	}
	sort.Strings(fnNames)
	var rules []string
	for r, d := range c.ruleDesc {
		rules = append(rules, r+": "+d)
	}
	sort.Strings(rules)
	cov := map[string]interface{}{
		"explanation":           spec.Explanation,
		"obligations":           len(c.Obs),
		"discharged":            nOK,
		"known_findings":        nKnown,
		"evaluations":           len(c.Obs),
		"distinct_nontrivial":   len(distinct),
		"rule":                  "obligations are rule instances enumerated from the rule tables against the resolved program (types + SSA); an instance is distinct by (rule, construct key) and non-trivial when its anchor resolved and a CFG/SSA/type query was evaluated on it. Rules: " + strings.Join(rules, " | "),
		"samples":               samples,
		"per_rule":              perRule,
		"functions_analysed":    fnNames,
		"blocks_analysed":       nBlocks,
		"instructions_analysed": nInstr,
		"packages_loaded":       c.P.NumPkgs,
		"callgraph":             c.P.cgMode,
		"repo":                  c.P.Repo,
		"exhaustive":            true,
		"notes":                 append(append([]string{}, c.Notes...), aliasNotes...),
		"not_decided":           spec.NotDecided,
	}
	for k, v := range extra {
		cov[k] = v
	}
	ev := evidence{PropertyID: c.Prop, Tier: c.Tier, Seed: seed, Level: "other", Coverage: cov,
		Assumptions: spec.Assumptions, WallS: time.Since(start).Seconds(), Violations: n}
	b, _ := json.MarshalIndent(ev, "", " ")
	os.MkdirAll(filepath.Join(verifDir, "evidence"), 0o755)
	if err := os.WriteFile(filepath.Join(verifDir, "evidence", c.Prop+".json"), b, 0o644); err != nil {
		fmt.Printf("ERROR: cannot write evidence: %v\n", err)
		if code == 0 {
			code = 2
		}
	}
	fmt.Printf("SUMMARY property=%s tier=%s obligations=%d ok=%d known=%d failing=%d functions=%d wall=%.1fs\n",
		c.Prop, c.Tier, len(c.Obs), nOK, nKnown, n, len(fnNames), time.Since(start).Seconds())
	return code
}
